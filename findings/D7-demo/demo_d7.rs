//! Demonstration of finding D7 (property C06, "and after open") on the unmodified library.
//!
//! A GC pass unlinks unused WAL files oldest first. If the process dies between two unlinks while
//! the unused files hold one multi-file entry, the oldest surviving file begins with continuation
//! frames whose first frame is gone. On the next `open` the replay loop takes the file number
//! *before* `read_record`, which then skips those orphaned frames across several files: the first
//! record found behind them is attributed to the file in which the orphaned frames begin, and that
//! file (and the ones in between) is kept although nothing retained was ever written into it.
//!
//! Wire in with `#[cfg(test)] mod demo_d7;` in src/lib.rs; run `cargo test --offline demo_d7`
//! (cfg(test) makes WAL files 4 blocks = 128 KiB).
use std::fs;

use crate::MultiRecordLog;

fn wal(dir: &std::path::Path, number: u64) -> std::path::PathBuf {
    dir.join(format!("wal-{number:020}"))
}

#[test]
fn demo_d7_files_survive_recovery_after_interrupted_gc() {
    let tempdir = tempfile::tempdir().unwrap();
    let dir = tempdir.path();
    let mut log = MultiRecordLog::open(dir).unwrap();
    log.create_queue("big").unwrap();
    log.create_queue("small").unwrap();
    // one entry spanning files 0..=3
    log.append_record("big", None, &vec![7u8; 400_000][..]).unwrap();
    assert_eq!(log.list_file_numbers(), vec![0, 1, 2, 3]);
    // two small records, written into file 3
    log.append_record("small", None, &b"one"[..]).unwrap();
    log.append_record("small", None, &b"two"[..]).unwrap();
    // the files the GC pass of the next call is about to unlink
    let saved: Vec<(u64, Vec<u8>)> = (1..=2).map(|n| (n, fs::read(wal(dir, n)).unwrap())).collect();
    // drop the big record: files 0, 1, 2 become unused and are unlinked, oldest first
    log.truncate("big", ..=0).unwrap();
    assert_eq!(log.list_file_numbers(), vec![3]);
    drop(log);
    // "the process died after the first unlink": files 1 and 2 are still there
    for (number, content) in &saved {
        fs::write(wal(dir, *number), content).unwrap();
    }
    let log = MultiRecordLog::open(dir).unwrap();
    // nothing is lost ...
    assert_eq!(log.range("small", ..).unwrap().count(), 2);
    assert_eq!(log.range("big", ..).unwrap().count(), 0);
    // ... but both retained records were written into file 3, the writer is in file 3, and yet:
    assert_eq!(
        log.list_file_numbers(),
        vec![3],
        "C06 after open: files older than every retained record and than the file being written survive"
    );
}
