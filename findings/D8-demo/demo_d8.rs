//! Demonstration of defect D8 (property C10) on the library before the fix: `open` panics
//! ("attempt to add with overflow", builds with overflow checks - the default for `cargo test` and
//! debug builds) on a WAL whose checksum-valid entries carry positions at u64::MAX.
//!
//! Wire in with `#[cfg(test)] mod demo_d8;` in src/lib.rs; run `cargo test --offline --lib demo_d8`.
use std::fs;

use crate::MultiRecordLog;

fn full_frame(payload: &[u8]) -> Vec<u8> {
    let mut hasher = crc32fast::Hasher::default();
    hasher.update(&[1u8]); // frame type Full
    hasher.update(payload);
    let mut out = Vec::new();
    out.extend_from_slice(&hasher.finalize().to_le_bytes());
    out.extend_from_slice(&(payload.len() as u16).to_le_bytes());
    out.push(1);
    out.extend_from_slice(payload);
    out
}

fn entry(record_type: u8, position: u64, queue: &str, body: &[u8]) -> Vec<u8> {
    let mut out = vec![record_type];
    out.extend_from_slice(&position.to_le_bytes());
    out.extend_from_slice(&(queue.len() as u16).to_le_bytes());
    out.extend_from_slice(queue.as_bytes());
    out.extend_from_slice(body);
    out
}

fn wal_with(frames: &[Vec<u8>]) -> tempfile::TempDir {
    let tempdir = tempfile::tempdir().unwrap();
    let mut content = Vec::new();
    for frame in frames {
        content.extend_from_slice(frame);
    }
    content.resize(4 * 32_768, 0);
    fs::write(tempdir.path().join("wal-00000000000000000000"), content).unwrap();
    tempdir
}

#[test]
fn demo_d8_append_entry_with_record_at_u64_max() {
    // AppendRecords(q): records at positions u64::MAX and (wrapping) 0
    let mut batch = Vec::new();
    for position in [u64::MAX, 0u64] {
        batch.extend_from_slice(&position.to_le_bytes());
        batch.extend_from_slice(&1u32.to_le_bytes());
        batch.push(b'x');
    }
    let dir = wal_with(&[full_frame(&entry(4, u64::MAX, "q", &batch))]);
    // must return (Ok or Err), not panic
    let _ = MultiRecordLog::open(dir.path());
}

#[test]
fn demo_d8_truncate_entry_at_u64_max() {
    // RecordPosition(q, 5) then Truncate(q, ..=u64::MAX)
    let dir = wal_with(&[full_frame(&entry(2, 5, "q", &[])), full_frame(&entry(1, u64::MAX, "q", &[]))]);
    let _ = MultiRecordLog::open(dir.path());
}
