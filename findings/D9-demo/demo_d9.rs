//! Probe (property C17): a symlink named like the NEXT WAL file. The roll-over fails (create_new:
//! EEXIST) - but FileTracker::inc has already registered the number, so a RETRIED write takes the
//! "next file exists" branch, which opens the path following the symlink and writes log data into
//! the foreign file it points to.
//!
//! Wire in with `#[cfg(test)] mod demo_d9;` in src/lib.rs; run `cargo test --offline --lib demo_d9`.
use std::fs;

use crate::MultiRecordLog;

#[test]
fn demo_d9_retry_after_failed_rollover_writes_through_a_symlink() {
    let tempdir = tempfile::tempdir().unwrap();
    let dir = tempdir.path();
    let foreign = dir.join("notes.txt");
    fs::write(&foreign, vec![b'x'; 200_000]).unwrap();
    std::os::unix::fs::symlink("notes.txt", dir.join("wal-00000000000000000001")).unwrap();
    let before = fs::read(&foreign).unwrap();
    let mut log = MultiRecordLog::open(dir).unwrap();
    log.create_queue("q").unwrap();
    let mut failures = 0;
    for _ in 0..12 {
        // 20 kB records: the 7th does not fit into the 128 KiB test-sized first file
        if log.append_record("q", None, &vec![7u8; 20_000][..]).is_err() {
            failures += 1;
        }
    }
    assert!(failures > 0, "the roll-over onto the symlink was expected to fail at least once");
    let after = fs::read(&foreign).unwrap();
    assert!(
        before == after,
        "C17: the foreign file behind the symlink was modified by the library ({} failed appends)",
        failures
    );
}
