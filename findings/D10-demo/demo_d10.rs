//! Demonstration of finding D10 (property C08) on the unmodified library: zero-fill damage of ONE
//! frame header, followed - after a successful reopen - by an append that is cut short by a crash,
//! makes the next open return a record nobody appended.
//!
//! An all-zero header is the end-of-log marker. Zeroing the header of an early frame therefore ends
//! the log there; the writer resumes at that point, IN FRONT of the frames written before, which
//! stay in the file with valid checksums. If a later append dies after its first frame reached the
//! file and its tail is as long as the tail of the stale record whose Last frame opens the next
//! block, the reader joins First(new) + Last(stale): both checksums hold, the lengths fit, and a
//! record made of the head of one payload and the tail of another surfaces.
//!
//! Wire in with `#[cfg(test)] mod demo_d10;` in src/lib.rs; run `cargo test --offline --lib demo_d10`.
use std::fs;

use crate::{MultiRecordLog, PersistPolicy};

const BLOCK: usize = 32_768;
const HDR: usize = 7;

#[test]
fn demo_d10_zeroed_header_then_torn_append_surfaces_a_spliced_record() {
    let tempdir = tempfile::tempdir().unwrap();
    let dir = tempdir.path();
    let wal = dir.join("wal-00000000000000000000");
    // entry overhead of an append of one record to queue "q": 11 + 1 (name) + 12 (record header)
    let overhead = 11 + 1 + 12;
    let create_frame = HDR + 11 + 1; // RecordPosition(q, 0)
    let a_len = 10;
    let c_len = 40_000;
    let (a, c, e) = (vec![b'a'; a_len], vec![b'c'; c_len], vec![b'e'; 20]);
    {
        let mut log = MultiRecordLog::open(dir).unwrap();
        log.create_queue("q").unwrap();
        log.append_record("q", None, &a[..]).unwrap(); // position 0
        log.append_record("q", None, &c[..]).unwrap(); // position 1, continues into the next block
        log.append_record("q", None, &e[..]).unwrap(); // position 2
    }
    // where the frames are
    let a_off = create_frame;
    let c_off = a_off + HDR + overhead + a_len;
    let c_first = BLOCK - c_off - HDR; // bytes of C's entry in its first frame
    let c_tail = overhead + c_len - c_first; // bytes of C's entry in the Last frame opening block 1
    // damage: zero the 7 header bytes of A's frame (file length unchanged)
    let mut bytes = fs::read(&wal).unwrap();
    for byte in &mut bytes[a_off..a_off + HDR] {
        *byte = 0;
    }
    fs::write(&wal, &bytes).unwrap();
    // the damaged log opens: it ends where A was
    {
        let log = MultiRecordLog::open(dir).unwrap();
        assert_eq!(log.range("q", ..).unwrap().count(), 0);
    }
    // an append sized so that its first frame ends with block 0 and its tail is as long as C's tail,
    // cut short by a crash: the first frame reaches the file, the last one stays in the BufWriter
    let d_first = BLOCK - a_off - HDR;
    let d_len = d_first + c_tail - overhead;
    let d = vec![b'd'; d_len];
    {
        let mut log = MultiRecordLog::open_with_prefs(dir, PersistPolicy::DoNothing).unwrap();
        log.append_record("q", None, &d[..]).unwrap();
        std::mem::forget(log); // the process dies: nothing buffered is written
    }
    let log = MultiRecordLog::open(dir).unwrap();
    let appended: [&[u8]; 4] = [&a, &c, &d, &e];
    for record in log.range("q", ..).unwrap() {
        assert!(
            appended.iter().any(|payload| *payload == &record.payload[..]),
            "C08: the record at position {} ({} bytes: {} x {:?} then {} x {:?}) was never appended",
            record.position,
            record.payload.len(),
            record.payload.iter().take_while(|byte| **byte == record.payload[0]).count(),
            record.payload[0] as char,
            record.payload.iter().rev().take_while(|byte| **byte == *record.payload.last().unwrap()).count(),
            *record.payload.last().unwrap() as char,
        );
    }
}
