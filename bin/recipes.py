"""Per-property recipes: which TLC configurations decide the design, which harness runs bind the
code to the specification, and which monitors of the trace specification are judged."""

COMMON_ASSUMPTIONS = [
    "the cfg(mrecordlog_verif) hooks report every file-system effect of the library (all in src/rolling/directory.rs; "
    "a grep-based guard lists other files that touch the file system in coverage.fs_calls_outside_hooked_layer)",
    "tmpfs behaves like the file systems the library targets for the effects modelled",
    "BufWriter::buffer() reports exactly the bytes not yet handed to the OS",
    "WAL files of 4 blocks (the crate's own cfg(test) geometry) instead of 4096: the arithmetic is uniform in that constant",
    "positions are logged as anchor index * 2^24 + offset (order- and successor-preserving); payload identity is a 30-bit digest of the bytes",
    "TLC, the CommunityModules Json/IOUtils modules and the harness's image builder are correct",
]

MIX = "small:60,positions:40,gc-heavy:12,big:6,many-queues:6,names:6,wrap:6,batch:12,empties:10,edge63:10,gapbatch:10"
MC_QM = dict(name="MC_QueueMap", module="QueueMapMC.tla", cfg="MC_QueueMap.cfg", cfg_thorough="MC_QueueMap_thorough.cfg",
             expect_actions=["QNext"])
WAL_STEPS = ["CallBegin", "StepEntry", "StepWrite", "StepFlush", "StepFsync", "StepDirSync", "StepCreate", "StepSetLen",
             "StepUnlink", "StepMem", "StepPromise", "StepReturn", "Open"]
MC_CLEAN = dict(coverage=False, name="MC_Clean", module="MC_Wal.tla", cfg="MC_Clean_quick.cfg", cfg_thorough="MC_Clean.cfg",
                expect_actions=WAL_STEPS + ["Restart"], timeout=3000)
MC_CRASH = dict(coverage=False, name="MC_Crash", module="MC_Wal.tla", cfg="MC_Crash_quick.cfg", cfg_thorough="MC_Crash.cfg",
                expect_actions=WAL_STEPS + ["CrashProcess"], expect_actions_thorough=WAL_STEPS + ["CrashProcess"],
                timeout=7000)
MC_POLICY = dict(coverage=False, name="MC_Policy", module="MC_Wal.tla", cfg="MC_Policy_quick.cfg", cfg_thorough="MC_Policy.cfg",
                 expect_actions=WAL_STEPS + ["CrashProcess", "CrashPower"], timeout=7000)
MC_POLICY_FSYNC = dict(coverage=False, name="MC_Policy_fsync", module="MC_Wal.tla", cfg="MC_Policy_fsync_quick.cfg",
                       cfg_thorough="MC_Policy_fsync.cfg", expect_actions=WAL_STEPS + ["CrashProcess", "CrashPower"], timeout=7000)
MC_CRASH_SIM = dict(coverage=False, name="MC_Crash_sim", module="MC_Wal.tla", cfg="MC_Crash_deep.cfg", tiers=("thorough",),
                    simulate=(6000, 900), workers=12, expect_actions=WAL_STEPS + ["CrashProcess", "Restart"], timeout=3000)
MC_POLICY_SIM = dict(coverage=False, name="MC_Policy_sim", module="MC_Wal.tla", cfg="MC_Policy_deep.cfg", tiers=("thorough",),
                     simulate=(6000, 900), workers=12, expect_actions=WAL_STEPS + ["CrashProcess", "CrashPower"], timeout=3000)
MC_DAMAGE = dict(coverage=False, name="MC_Damage", module="MC_Wal.tla", cfg="MC_Damage_quick.cfg", cfg_thorough="MC_Damage.cfg",
                 expect_actions=WAL_STEPS + ["Restart", "Damage"], timeout=7000)
MC_NOOP = dict(coverage=False, name="MC_Noop", module="MC_Wal.tla", cfg="MC_Noop_quick.cfg", expect_actions=WAL_STEPS + ["Restart"], timeout=3000)
MC_READER = dict(name="MC_Reader", module="Reader.tla", cfg="MC_Reader.cfg", expect_actions=["ReadFrame", "Header", "IntoWriter", "GcOpenOrCreate"])
MC_CODEC = dict(name="MC_Codec", module="MC_Codec.tla", cfg="MC_Codec.cfg", coverage=False)
MC_STALE = dict(name="MC_Stale", module="Stale.tla", cfg="MC_Stale.cfg", expect_actions=["AppendEntry", "Close", "Damage", "Open"])
MC_STALE_REPAIR = dict(name="MC_Stale_repair", module="Stale.tla", cfg="MC_Stale_repair.cfg", expect_actions=["AppendEntry", "Close", "Damage", "Open"])
MC_FRAMES = dict(name="MC_Frames", module="MC_Frames.tla", cfg="MC_Frames_quick.cfg", cfg_thorough="MC_Frames_tiny.cfg")
MC_FRAMES_REAL = dict(name="MC_Frames_real", module="MC_Frames.tla", cfg="MC_Frames_real.cfg")

RECIPES = {
    "C05": dict(
        level="model_checking",
        monitors={"C05"},
        mc=[MC_QM, MC_CLEAN],
        runs=[dict(cmd="run", gen=MIX, policy="always_flush"),
              dict(cmd="run", genreal="GEN_Wal.cfg", genreal_thorough="GEN_Wal_5.cfg")],
        rule="every call of every script: result and full observable state (queue set, records, next, last_position, "
             "last_record, summary, 4 range probes) compared with QueueMap by TLC; non-trivial = calls executed",
        nontrivial_stat="calls",
    ),
    "C01": dict(
        level="model_checking",
        monitors={"C01"},
        mc=[MC_QM, MC_CLEAN],
        runs=[dict(cmd="run", gen="restarts:120,gc-heavy:20,big:8,many-queues:8,names:8,aim-gc:60,aim-roll:30,aim-block:40,aim-batch:10,aim-pin:20,aim-seam:40,aim-stale:10,aim-span:10,aim-recreate:30,recreate:20,empties:20", policy="always_flush"),
              dict(cmd="run", gen="restarts:30,gc-heavy:6", policy="do_nothing,always_fsync,on_delay_long_flush"),
              dict(cmd="run", genreal="GEN_Wal.cfg", genreal_thorough="GEN_Wal_5.cfg")],
        rule="state after every Drop+open compared with QueueMap's state before it; non-trivial = restarts executed",
        nontrivial_stat="restarts",
    ),
    "C04": dict(
        level="model_checking",
        monitors={"C04"},
        mc=[MC_QM, MC_CLEAN, MC_CRASH_SIM],
        runs=[dict(cmd="run", gen="idle:60,gc-heavy:20,positions:30,aim-gc:80,aim-stale:20,edge63:20", policy="always_flush"),
              dict(cmd="run", gen="idle:16,gc-heavy:6,aim-gc:16,aim-stale:4", policy="always_flush",
                   opts={"crash": "process", "tears": "aimed", "cont": True, "max-points": "400"})],
        rule="every append result above the largest position ever assigned in the incarnation; next above it in every "
             "state, after every restart and every crash recovery; non-trivial = appends executed",
        nontrivial_stat="calls",
    ),
    "C13": dict(
        level="model_checking",
        monitors={"C13"},
        mc=[MC_QM, MC_NOOP],
        runs=[dict(cmd="run", gen="rejects:120,small:40,positions:40,aim-noop:60,edge63:20", policy="always_flush"),
              # (on_delay_us: an interval of the order of one call - some no-ops arrive with bytes of earlier calls
              # still buffered AND a persist due: a no-op that reaches the policy persist hands them to the OS)
              dict(cmd="run", gen="rejects:30,aim-noop:10,positions:10", policy="do_nothing,always_fsync,on_delay_long_flush,on_delay_us_flush,on_delay_us_fsync")],
        rule="every rejected / no-op call: no write/create/set_len/unlink event, wal_bytes_written = 0, state, cursor "
             "and file list unchanged; restart-equality through the C01/C05 monitors of the same run; "
             "non-trivial = rejected or no-op calls",
        nontrivial_stat="noop_calls",
    ),
    "C14": dict(
        level="model_checking",
        monitors={"C14"},
        mc=[MC_QM, MC_POLICY_FSYNC],
        runs=[dict(cmd="run", gen="small:40,positions:20,gc-heavy:8,restarts:20,batch:8,aim-roll:24,aim-gc:16",
                   policy="always_flush,do_nothing,always_fsync,on_delay_0_flush,on_delay_0_fsync,on_delay_long_flush,on_delay_long_fsync,on_delay_us_flush,on_delay_us_fsync",
                   opts={"c14": True})],
        rule="same script under 9 policies (OnDelay with interval 0, 60 us - clock-dependent - and 1 h): results (positions, eviction counts, error kinds) and states of every call "
             "and restart identical to the reference run; non-trivial = calls compared",
        nontrivial_stat="calls",
    ),
    "C15": dict(
        level="model_checking",
        monitors={"C15"},
        mc=[MC_FRAMES, MC_FRAMES_REAL, MC_CLEAN],
        runs=[dict(cmd="run", gen="boundary:80,gc-heavy:20,big:10,small:30,aim-block:60,aim-gc:20,aim-roll:20,rejects:30,aim-noop:10", policy="always_flush"),
              dict(cmd="run", gen="boundary:20,gc-heavy:8", policy="do_nothing"),
              # idle queues with names of tens of kilobytes: one GC pass writes more than a WAL file of position entries
              dict(cmd="run", gen="longnames:8", policy="always_flush"),
              # a truncate / delete whose GC pass meets an I/O error (the oldest file removed behind the library's back,
              # the unlink fails after the position entries were appended): a call that returns Ok reports what it appended
              dict(cmd="gcfail", opts={"cases": "24"}, opts_thorough={"cases": "200"})],
        rule="every mutating call: reported wal_bytes_written = bytes of its buffered writes = advance of the writer "
             "cursor; 0 iff nothing written; non-trivial = calls that wrote",
        nontrivial_stat="writing_calls",
    ),
    "C16": dict(
        level="exploration",
        monitors={"C16"},
        mc=[],
        runs=[dict(cmd="run", gen=MIX + ",drain:40,empties:20", policy="always_flush"),
              dict(cmd="run", gen="small:20,drain:20,gc-heavy:6,persist:10", policy="do_nothing,on_delay_long_flush,on_delay_0_fsync,always_fsync")],
        rule="after every call: names+payload <= memory_used <= names+payload+64*records, used <= allocated, truncate "
             "releases at least the evicted payload, names-only baseline when empty; non-trivial = calls executed",
        nontrivial_stat="calls",
    ),
    "C06": dict(
        level="model_checking",
        monitors={"C06"},
        mc=[MC_CLEAN],
        runs=[dict(cmd="run", gen="gc-heavy:40,many-queues:12,big:10,restarts:20,aim-roll:80,aim-gc:40,aim-pin:30,aim-seam:30,aim-span:20", policy="always_flush"),
              dict(cmd="run", gen="gc-heavy:10", policy="do_nothing,always_fsync"),
              dict(cmd="run", gen="aim-span:16,aim-roll:8,aim-gc:8,big:4,gc-heavy:4", policy="always_flush",
                   opts={"crash": "process", "tears": "boundaries", "max-points": "300"},
                   opts_thorough={"crash": "process", "tears": "aimed", "depth2": True, "max-points": "3000"}, thorough_factor=6),
              # a transient failure to create the next file (a foreign directory at its name, removed after the failing call)
              dict(cmd="obstacle", opts={"cases": "24"}, opts_thorough={"cases": "200"}),
              dict(cmd="run", genreal="GEN_Wal.cfg", genreal_thorough="GEN_Wal_5.cfg")],
        rule="after every truncate / delete / open of crash-free scripts: real readdir is a contiguous run ending at "
             "the writer's file, nothing older than min(oldest attribution, file at call start), disk_used = files * "
             "FILE_NUM_BYTES; the same after every open that recovers a process-crash image (attribution carried over "
             "from before the crash, 'file at call start' = the file recovery resumes the writer in); "
             "non-trivial = truncate/delete/restart calls",
        nontrivial_stat="gc_calls",
    ),
    "C02": dict(
        level="model_checking",
        monitors={"C02"},
        mc=[MC_CRASH, MC_CRASH_SIM],
        prechecks=[dict(cmd="sigkill", gen="small:4,gc-heavy:2,aim-roll:2,aim-span:1,restarts:2", policy="always_flush,do_nothing",
                        opts={"max-points": "40"}, thorough_factor=6)],
        runs=[dict(cmd="run", gen="small:24,gc-heavy:8,batch:8,big:3,restarts:6,aim-gc:8,aim-roll:6,aim-batch:4,aim-block:4,aim-pin:10,aim-span:6", policy="always_flush",
                   opts={"crash": "process", "tears": "aimed", "cont": True, "depth2": True, "max-points": "600"},
                   opts_thorough={"crash": "process", "tears": "all", "cont": True, "depth2": True, "max-points": "6000"},
                   thorough_factor=6),
              dict(cmd="run", gen="small:8,gc-heavy:3", policy="always_fsync",
                   opts={"crash": "process", "tears": "aimed", "cont": True, "max-points": "400"})],
        rule="process-crash images at every boundary between OS-level effects and at aimed (thorough: all) byte offsets "
             "of every write, opened with the real open; recovered state in AllowedAfterCrash; continuation of appends, "
             "truncate and clean restart validated by the C05/C01 monitors; second crash during recovery; "
             "non-trivial = crash points strictly inside a call",
        nontrivial_stat="crash_incall_points",
    ),
    "C03": dict(
        level="model_checking",
        monitors={"C03"},
        mc=[MC_POLICY, MC_POLICY_FSYNC, MC_POLICY_SIM],
        runs=[dict(cmd="run", gen="small:16,gc-heavy:6,persist:16,big:2,aim-pin:4,aim-block:4,aim-gc:4",
                   policy="do_nothing,on_delay_long_fsync,always_flush,always_fsync",
                   opts={"crash": "both", "tears": "aimed", "cont": True, "max-points": "300"},
                   opts_thorough={"crash": "both", "tears": "aimed", "cont": True, "max-points": "3000"},
                   thorough_factor=8)],
        rule="4 policies x process-crash and power-loss images (unsynced bytes lost; un-dir-synced creations/unlinks "
             "durable, not durable, or a prefix durable) at every boundary (+ aimed tears for process); recovered state "
             "at least as recent as the last promise; non-trivial = crash images opened",
        nontrivial_stat="crash_opens",
    ),
    "C12": dict(
        level="model_checking",
        monitors={"C12"},
        mc=[MC_CRASH, MC_DAMAGE, MC_CRASH_SIM],
        runs=[dict(cmd="run", gen="batch:30,big:4,aim-batch:10", policy="always_flush",
                   opts={"crash": "process", "tears": "aimed", "cont": True, "max-points": "800"},
                   opts_thorough={"crash": "process", "tears": "all", "cont": True, "max-points": "8000"},
                   thorough_factor=6),
              # clean histories: batches spanning several files, GC passes triggered by other queues, clean restarts
              dict(cmd="run", gen="aim-span:24,batch:20,big:6,aim-batch:40,gapbatch:20", policy="always_flush"),
              # (with the compound experiment of C08: damage that moves the end of the log, a reopen, a crash inside an
              # aimed BATCH append whose spliced entry is malformed - it must be dropped as a whole)
              dict(cmd="damage", gen="batch:24,big:4,aim-batch:30,aim-recreate:20", policy="always_flush",
                   opts={"classes": "payload,crc,hdr", "dmgcrash": True, "compound": "60"},
                   opts_thorough={"classes": "payload,crc,hdr", "thorough": True, "dmgcrash": True, "compound": "300"}, thorough_factor=6)],
        rule="every batch ever appended is recovered entirely, not at all, or as an upper segment, at every crash point "
             "and after the continuation's restart; non-trivial = crash points strictly inside a call",
        nontrivial_stat="crash_incall_points",
    ),
    "C08": dict(
        level="model_checking",
        monitors={"C08"},
        mc=[MC_DAMAGE, MC_STALE, MC_STALE_REPAIR],
        runs=[dict(cmd="damage", gen="small:20,batch:8,gc-heavy:6,big:3,names:3,aim-batch:10,aim-recreate:10", policy="always_flush",
                   opts={"classes": "payload,crc,hdr,noise", "noise": "300"},
                   opts_thorough={"classes": "payload,crc,hdr,noise", "noise": "1500", "thorough": True}, thorough_factor=8),
              dict(cmd="damage", gen="embed:12", policy="always_flush", opts={"classes": "embed,hdr"}),
              # records whose consecutive block-filling frames are byte-identical (uniform / periodic payloads)
              dict(cmd="damage", gen="uniform:8", policy="always_flush", opts={"classes": "payload,crc"}, thorough_factor=2),
              # every frame payload size 0..720 and the sizes around powers of two: payload / checksum damage only
              dict(cmd="damage", gen="sizes:9", policy="always_flush", opts={"classes": "payload,crc"}, thorough_factor=1,
                   opts_thorough={"classes": "payload,crc,hdr", "thorough": True}),
              # damage after crash recovery: the dangling head of a torn multi-frame append, completed by an append
              # of exactly the missing size, whose frame is then retyped Full -> Last at rest
              dict(cmd="run", gen="big:8,batch:12,aim-batch:8,aim-block:8", policy="always_flush",
                   opts={"crash": "process", "tears": "boundaries", "cont": True, "glue": True, "max-points": "400"},
                   thorough_factor=6),
              # damage that moves the end of the log (zeroed header, zeroed / invalid type byte, checksum), a reopen,
              # then a crash inside an append sized so that its first frame closes the block and its tail is as long as
              # the stale continuation frame that opens the next block (finding D10 for the zeroed header)
              dict(cmd="damage", gen="big:6,batch:8,aim-batch:8,aim-block:8", policy="always_flush",
                   opts={"classes": "hdr,crc", "dmgcrash": True, "compound": "120"},
                   opts_thorough={"classes": "hdr,crc", "dmgcrash": True, "compound": "600", "thorough": True}, thorough_factor=4)],
        rule="closed images of recorded runs x in-place damage aimed with the frame table (every header field of every "
             "frame, payload first/middle/last byte, CRC bytes, garbage / zero ranges, block boundaries) + random noise, "
             "1-3 operations; every recovered record must equal a record of some recorded append of the same queue, "
             "positions strictly increasing; non-trivial = damage cases opened",
        nontrivial_stat="damage_cases",
    ),
    "C09": dict(
        level="model_checking",
        monitors={"C09"},
        mc=[MC_DAMAGE],
        runs=[dict(cmd="damage", gen="small:24,recreate:16,batch:8,gc-heavy:6,big:3,aim-batch:8,aim-recreate:10", policy="always_flush",
                   opts={"classes": "payload,crc", "cont": True},
                   opts_thorough={"classes": "payload,crc", "cont": True, "thorough": True}, thorough_factor=10)],
        rule="every frame of every image x {bit flip at first/middle/last payload byte, garbage payload, zero payload, "
             "bit flip in each CRC byte, garbage CRC}: open succeeds and every retained record of every other entry is "
             "recovered; then one append per queue, a truncate and a clean restart validated from the recovered state; "
             "non-trivial = damage cases opened",
        nontrivial_stat="damage_cases",
    ),
    "C10": dict(
        level="exploration",
        monitors={"C10"},
        mc=[MC_READER, MC_CODEC],
        runs=[dict(cmd="codec", opts={"cases": "300"}, opts_thorough={"cases": "3000"}),
              dict(cmd="damage", gen="small:16,batch:6,gc-heavy:6,big:3,names:2", policy="always_flush",
                   opts={"classes": "payload,crc,hdr,noise,struct,hostile", "noise": "200", "struct": "200"},
                   opts_thorough={"classes": "payload,crc,hdr,noise,struct,hostile", "noise": "2000", "struct": "2000", "thorough": True},
                   thorough_factor=8)],
        rule="checksum-valid frames with hostile entries at the end of the log (unknown types, lengths beyond the entry, invalid "
             "UTF-8, positions at the edge of u64, huge batches of empty records); "
             "full damage alphabet (overwritten, zeroed, truncated, removed, duplicated, transposed blocks and files, "
             "short / empty files, stray files, sub-directories, symlinks, random blocks, blocks of valid-looking "
             "headers): open under catch_unwind, a 10 s deadline and a counting allocator (peak <= 8 x image + 64 MiB); "
             "all read accessors called on a returned log; non-trivial = damage cases opened",
        nontrivial_stat="damage_cases",
    ),
    "C11": dict(
        level="model_checking",
        monitors={"C11"},
        mc=[MC_READER],
        runs=[dict(cmd="fault", gen="small:16,gc-heavy:10,big:4,many-queues:3,aim-gc:30,aim-roll:6", policy="always_flush",
                   opts={"gc-images": True, "damaged-images": True},
                   opts_thorough={"gc-images": True, "all-kinds": True, "max-gc-images": "20", "damaged-images": True, "max-damaged-images": "8"},
                   thorough_factor=6)],
        rule="closed images spanning 1-4 WAL files x every listing / open / read / seek call recovery makes on them (counted "
             "by a fault-free run) x {transient, persistent} x error kinds, plus process-crash images taken before each "
             "unlink of a GC pass (recovery repeats the pass and may have to open or create the next file) x every "
             "open-or-create call, plus images with a block the reader gives up on (invalid frame type at a block start: the "
             "next block is loaded on the skip-a-corrupted-block path) x every open / read call; open must return Err(IoError) within the deadline; non-trivial = injected faults that struck",
        nontrivial_stat="fault_struck",
    ),
    "C17": dict(
        level="exploration",
        monitors={"C17"},
        mc=[],
        runs=[dict(cmd="names", gen="gc-heavy:30,big:6,aim-gc:10,aim-roll:10", policy="always_flush", thorough_factor=10),
              # "ordered by that number with gaps allowed": the WAL files of a closed image renamed by an order-preserving
              # map (numbers below, across and above 10^19, near the top of u64, with gaps) must open to the same state
              dict(cmd="damage", gen="gc-heavy:12,big:4,small:10,aim-gc:6", policy="always_flush", opts={"classes": "renumber"}, thorough_factor=6)],
        rule="(a) ~330 near-miss names (every single-byte edit of a valid name, other lengths, non-ASCII digits, invalid "
             "UTF-8, the u64 boundary) x {regular file, directory, symlink to a valid WAL file} next to one valid WAL "
             "file: listed as WAL iff IsWalName and regular file (decided by TLC), untouched otherwise; (b) histories with "
             "roll-over and GC in directories pre-populated with WAL files 3,7,8 and foreign entries: created = last+1, "
             "removed oldest first, only tracked numbers opened/removed, foreign entries unchanged, numeric replay order; "
             "(c) closed images whose WAL files were renumbered order-preservingly (six maps) open to the state a clean "
             "restart gives; non-trivial = name cases + histories",
        nontrivial_stat="name_cases",
    ),
    "C07": dict(
        level="model_checking",
        monitors={"C07"},
        mc=[MC_FRAMES, MC_FRAMES_REAL, MC_CODEC],
        runs=[dict(cmd="frames", opts={"cases": "6000"}, opts_thorough={"sweep": True}),
              # the entry codec: encodings of generated entries must decode to what was encoded (Codec.tla)
              dict(cmd="codec", opts={"cases": "300"}, opts_thorough={"cases": "3000"}),
              # (do_nothing: entries wait in the BufWriter while the next ones are laid out - padding, seeks and
              # roll-overs then happen with unflushed frames pending)
              # (aim-span: entries of 1.1 to 3.2 files started 0..8 bytes before a file end, a GC pass run by another
              # queue while they are retained, restarts: an entry must come back whole from all the files it spans)
              dict(cmd="run", gen="aim-block:60,boundary:40,big:10,aim-span:100", policy="always_flush,do_nothing", monitors={"C01", "C05", "C15"})],
        rule="record layer in memory: the real RecordWriter over a logging block writer and the real RecordReader, start "
             "cursors at every boundary class (thorough: all 32768 in-block offsets) x 1-3 entry lengths chosen relative to "
             "the cursor (0, 1, fills the frame exactly, +-1, one and two more blocks, > 1 file, ~300 KB): layout compared "
             "with Frames!FlatAll at the real constants by TLC, read-back compared with what was written; through files: "
             "cursor-aimed scripts with restarts judged by the restart / conformance monitors; non-trivial = cases",
        nontrivial_stat="frame_cases",
    ),
    "C18": dict(
        level="model_checking",
        monitors={"C18"},
        mc=[MC_QM, MC_CLEAN],
        runs=[dict(cmd="pair", gen="gc-heavy:16,many-queues:6,small:20,idle:10,aim-gc:30,aim-roll:10,recreate:10,aim-pin:10,aim-block:16,aim-batch:6,aim-span:4", policy="always_flush",
                   opts={"crash": True, "max-points": "40"}, opts_thorough={"crash": True, "max-points": "400"}, thorough_factor=10)],
        rule="for every script and every queue q: the full run and its projection onto q (restarts kept) agree on every "
             "result of a call addressed to q and on q's content after each such call and each restart; crash variant: "
             "process-crash images of the full run between calls and inside calls addressed to other queues recover q as "
             "the projection has it; non-trivial = (script, queue) pairs with traffic on other queues",
        nontrivial_stat="pairs_with_other_traffic",
    ),
}
