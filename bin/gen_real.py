#!/usr/bin/env python3
"""gen_real.py <out_dir> [cfg] : run GEN_Wal (Wal.tla at the real geometry) and turn every behaviour TLC
prints into a script with the state the specification predicts at its end."""
import json
import os
import sys

sys.path.insert(0, os.path.dirname(os.path.abspath(__file__)))
import vlib


def write_scripts(prints, out_dir):
    os.makedirs(out_dir, exist_ok=True)
    anchors = [0, 1 << 31, 1 << 40, 1 << 61, (1 << 62) - (1 << 20)]
    count = 0
    seen = set()
    for line in prints:
        if not line.startswith('"GEN|'):
            continue
        text = json.loads(line)[4:]
        if text in seen:
            continue
        seen.add(text)
        beh = json.loads(text)
        steps = []
        seed = count << 16
        for h in beh["hist"]:
            if h["k"] == "restart":
                steps.append({"op": "restart"})
            elif h["op"] == "create":
                steps.append({"op": "create", "q": h["q"]})
            elif h["op"] == "delete":
                steps.append({"op": "delete", "q": h["q"]})
            elif h["op"] == "truncate":
                steps.append({"op": "truncate", "q": h["q"], "p": h["p"]})
            elif h["op"] == "append":
                batch = []
                for ln in h["lens"]:
                    seed += 1
                    batch.append({"seed": seed, "len": ln})
                steps.append({"op": "append", "q": h["q"], "pos": None if h["pos"] == -1 else h["pos"], "batch": batch})
        script = {"name": "gen-%05d" % count, "policy": "always_flush", "queues": ["a", "b"], "anchors": anchors,
                  "steps": steps, "expect": {"abs": beh["abs"], "w": beh["w"], "files": beh["files"]}}
        with open(os.path.join(out_dir, script["name"] + ".json"), "w") as fh:
            json.dump(script, fh)
        count += 1
    return count


def main():
    out_dir = sys.argv[1]
    cfg = sys.argv[2] if len(sys.argv) > 2 else "GEN_Wal.cfg"
    info = vlib.run_tlc_mc("GEN_Wal", "GEN_Wal.tla", cfg, workers=10, timeout=3000, coverage=False)
    if not info.get("completed"):
        print("TOOL-ERROR: GEN_Wal did not complete: %s" % info.get("violated"))
        print(info.get("tail", ""))
        return 2
    count = write_scripts(info["prints"], out_dir)
    print(json.dumps({"behaviours": count, "distinct": info.get("distinct"), "generated": info.get("generated"),
                      "wall_s": info.get("wall_s")}))
    return 0


if __name__ == "__main__":
    sys.exit(main())
