"""Shared helpers for /verif/bin/check: building the harness, running TLC, validating traces,
writing evidence.  Exit codes: 0 held, 1 violation (with VIOLATION line), 2 tool error."""
import concurrent.futures
import glob
import hashlib
import json
import os
import re
import shutil
import subprocess
import sys
import time

VERIF = os.path.dirname(os.path.dirname(os.path.abspath(__file__)))
SPEC = os.path.join(VERIF, "spec")
HARNESS_DIR = os.path.join(VERIF, "harness")
HARNESS = os.path.join(HARNESS_DIR, "target", "release", "mrl-harness")
WORK = os.path.join(VERIF, "work")
REPLAYS = os.path.join(WORK, "replays")
KNOWN = os.path.join(VERIF, "known_findings.json")
REPO = os.environ.get("VERIF_REPO", "/repo")  # (vp run --with-repo snapshots: see bin/sweep)


class ToolError(Exception):
    pass


def log(msg):
    print(msg, flush=True)


def sh(cmd, timeout=None, env=None, cwd=None):
    e = dict(os.environ)
    if env:
        e.update(env)
    return subprocess.run(cmd, shell=isinstance(cmd, str), stdout=subprocess.PIPE, stderr=subprocess.STDOUT,
                          text=True, timeout=timeout, env=e, cwd=cwd)


def scratch_dir(tag):
    base = "/dev/shm" if os.path.isdir("/dev/shm") and os.access("/dev/shm", os.W_OK) else WORK
    path = os.path.join(base, "verif-%s-%d" % (tag, os.getpid()))
    shutil.rmtree(path, ignore_errors=True)
    os.makedirs(path, exist_ok=True)
    return path


def build_harness():
    t0 = time.time()
    env = {"CARGO_NET_OFFLINE": "true"}
    res = sh(["cargo", "build", "--release", "--offline"], cwd=HARNESS_DIR, env=env, timeout=1800)
    if res.returncode != 0:
        sys.stdout.write(res.stdout[-6000:])
        raise ToolError("harness / repository build failed")
    return time.time() - t0


def source_guard():
    """Trusted-base check: all file-system effects of the library are in rolling/directory.rs."""
    offenders = []
    for path in glob.glob(os.path.join(REPO, "src", "**", "*.rs"), recursive=True):
        rel = os.path.relpath(path, REPO)
        if rel in ("src/rolling/directory.rs", "src/verif.rs") or rel.endswith("tests.rs") or "/tests" in rel or rel.startswith("src/demo"):
            continue
        text = open(path, encoding="utf-8", errors="replace").read()
        if re.search(r"std::fs|OpenOptions|File::(open|create)|remove_file|read_dir", text):
            if rel in ("src/proptests.rs",):
                continue
            offenders.append(rel)
    return offenders


# ---------------------------------------------------------------------------------------------
# TLC

TLC_JAR = "/opt/veriftools/tla/tla2tools.jar"


def tlc_cmd(workers, metadir, cfg, module, extra=None, heap="6g"):
    cmd = ["java", "-XX:+UseParallelGC", "-Xmx" + heap, "-Xss512m", "-cp",
           TLC_JAR + ":/opt/veriftools/tla/CommunityModules-deps.jar:/opt/veriftools/tla/CommunityModules.jar",
           "tlc2.TLC", "-workers", str(workers), "-metadir", metadir, "-cleanup", "-noGenerateSpecTE",
           "-config", cfg, module]
    if extra:
        cmd[cmd.index("-config"):cmd.index("-config")] = extra
    return cmd


def find_tlc_launcher():
    # prefer the `tlc` wrapper on PATH (knows the class path with the CommunityModules)
    return shutil.which("tlc")


def run_tlc_mc(name, module, cfg, workers=8, timeout=3600, coverage=True, extra=None, expect_actions=None, simulate=None, seed=None):
    """Runs a model-checking configuration.  Returns a dict with states, distinct, depth, ok,
    violated invariant (if any), action coverage."""
    metadir = os.path.join(scratch_dir("tlc-" + name), "meta")
    args = [find_tlc_launcher(), "-workers", str(workers), "-metadir", metadir, "-cleanup", "-noGenerateSpecTE"]
    if coverage:
        args += ["-coverage", "1"]
    if extra:
        args += extra
    if simulate:
        # random behaviours beyond the exhaustive bound: simulate = (number of traces per worker, depth)
        args += ["-simulate", "num=%d" % simulate[0], "-depth", str(simulate[1])]
        if seed is not None:
            args += ["-seed", str(seed)]
    args += ["-config", cfg, module]
    t0 = time.time()
    try:
        res = sh(args, cwd=SPEC, timeout=timeout, env={"JAVA_TOOL_OPTIONS": "-Xss512m"})
        out = res.stdout
        timed_out = False
    except subprocess.TimeoutExpired as exc:
        out = (exc.stdout or b"").decode() if isinstance(exc.stdout, bytes) else (exc.stdout or "")
        timed_out = True
    shutil.rmtree(os.path.dirname(metadir), ignore_errors=True)
    info = {"config": name, "module": module, "cfg": cfg, "wall_s": round(time.time() - t0, 1), "timed_out": timed_out}
    m = re.search(r"(\d[\d,]*) states generated, (\d[\d,]*) distinct states found", out)
    if m:
        info["generated"] = int(m.group(1).replace(",", ""))
        info["distinct"] = int(m.group(2).replace(",", ""))
    m = re.search(r"depth of the complete state graph search is (\d+)", out)
    if m:
        info["depth"] = int(m.group(1))
    info["completed"] = "Model checking completed. No error has been found." in out
    if simulate:
        m = re.search(r"(\d+) states checked, (\d+) traces generated \(trace length: mean=(\d+)", out)
        if m:
            info["generated"] = int(m.group(1))
            info["distinct"] = int(m.group(1))
            info["traces"] = int(m.group(2))
            info["mean_trace_length"] = int(m.group(3))
        info["simulated"] = True
        info["completed"] = ("Finished in" in out) and ("Error:" not in out)
    viol = re.search(r"Error: Invariant (\S+) is violated", out) or re.search(r"Error: Action property (\S+) is violated", out) \
        or re.search(r"Error: Temporal properties were violated", out)
    info["violated"] = viol.group(0) if viol else None
    # per-action coverage: lines like  <Step line 12, col 1 to line 30, col 20 of module Wal>: 123:456
    actions = {}
    for am in re.finditer(r"^<(\w+) line \d+, col \d+ to line \d+, col \d+ of module (\w+)>: (\d+):(\d+)", out, re.M):
        actions[am.group(1)] = actions.get(am.group(1), 0) + int(am.group(4))
    # witnesses printed by the specification itself (MC_Wal: "ACT|<action>")
    for am in re.finditer(r'^"ACT\|(\w+)"', out, re.M):
        actions[am.group(1)] = actions.get(am.group(1), 0) + 1
    info["actions"] = actions
    if expect_actions:
        info["vacuous_actions"] = [a for a in expect_actions if actions.get(a, 0) == 0]
    if not info["completed"] and not info["violated"] and not timed_out:
        info["tail"] = out[-3000:]
    info["prints"] = [l for l in out.splitlines() if (l.startswith('"') or l.startswith("<<")) and not l.startswith('"ACT|')][:400000]
    return info


def validate_trace_file(path, cfg="WalTrace.cfg", module="WalTrace.tla", timeout=1800):
    """Runs the trace specification on one NDJSON file. Returns (violations, accepted, nlines, raw)."""
    metadir = os.path.join(scratch_dir("tr-" + hashlib.md5(path.encode()).hexdigest()[:8]), "meta")
    args = [find_tlc_launcher(), "-workers", "1", "-metadir", metadir, "-cleanup", "-noGenerateSpecTE",
            "-config", cfg, module]
    env = {"TRACE": path, "JAVA_TOOL_OPTIONS": "-Xss1g -Xmx3g -Dtlc2.tool.queue.IStateQueue=StateDeque"}
    try:
        res = sh(args, cwd=SPEC, timeout=timeout, env=env)
    except subprocess.TimeoutExpired:
        shutil.rmtree(os.path.dirname(metadir), ignore_errors=True)
        raise ToolError("trace validation timed out on " + path)
    shutil.rmtree(os.path.dirname(metadir), ignore_errors=True)
    out = res.stdout
    viols, drifts = [], []
    accepted = None
    for line in out.splitlines():
        line = line.strip()
        if line.startswith('"VIOL|'):
            parts = line.strip('"').split("|", 5)
            viols.append({"property": parts[1], "line": int(parts[2]), "run": int(parts[3]), "script": parts[4],
                          "msg": parts[5], "file": path})
        elif line.startswith('"DRIFT|'):
            parts = line.strip('"').split("|", 4)
            drifts.append({"line": int(parts[1]), "run": int(parts[2]), "script": parts[3], "msg": parts[4]})
        elif line.startswith('"ACCEPTED|'):
            accepted = int(line.strip('"').split("|")[1])
        elif line.startswith('"UNMATCHED|'):
            raise ToolError("trace spec could not match a line: %s in %s" % (line, path))
    if accepted is None:
        if viols:
            # the trace specification stopped evaluating AFTER its monitors had reported violations (its model of
            # the log had parted from the code under test): the verdicts stand, the rest of the file is not judged
            log("NOTE: trace specification stopped after %d violation(s) in %s (rest of the file not judged)" % (len(viols), path))
            return viols, drifts, max(v["line"] for v in viols)
        raise ToolError("TLC failed on trace %s:\n%s" % (path, out[-4000:]))
    return viols, drifts, accepted


def validate_traces(out_dir, pattern="*.ndjson", jobs=8, cfg="WalTrace.cfg", module="WalTrace.tla"):
    files = sorted(f for f in glob.glob(os.path.join(out_dir, pattern)) if os.path.getsize(f) > 0)
    viols, drifts, lines = [], [], 0
    with concurrent.futures.ThreadPoolExecutor(max_workers=jobs) as pool:
        for v, d, n in pool.map(lambda f: validate_trace_file(f, cfg, module), files):
            viols += v
            drifts += d
            lines += n
    return viols, drifts, lines, len(files)


def run_harness(args, timeout=7200):
    t0 = time.time()
    res = sh([HARNESS] + [str(a) for a in args], timeout=timeout, env={"RUST_BACKTRACE": "0"})
    if res.returncode != 0:
        sys.stdout.write(res.stdout[-4000:])
        raise ToolError("harness failed: " + " ".join(str(a) for a in args))
    return time.time() - t0


def harness_stats(out_dir):
    with open(os.path.join(out_dir, "stats.json")) as fh:
        return json.load(fh)


# ---------------------------------------------------------------------------------------------
# Known findings, replay files, evidence

def load_known():
    if not os.path.exists(KNOWN):
        return []
    with open(KNOWN) as fh:
        return json.load(fh).get("findings", [])


def match_known(viol, known):
    """A violation matches a recorded finding only on property + the finding's specific shape."""
    for k in known:
        if k.get("status") != "known":
            continue
        if k["property"] != viol["property"]:
            continue
        sel = k.get("match", {})
        if all(str(viol.get(key, "")).find(val) >= 0 for key, val in sel.items()):
            return k
    return None


def save_replay(prop, viol, out_dir, harness_args, extra=None):
    os.makedirs(os.path.join(REPLAYS, prop), exist_ok=True)
    script = None
    spath = os.path.join(out_dir, "scripts", viol["script"] + ".json")
    if os.path.exists(spath):
        with open(spath) as fh:
            script = json.load(fh)
    name = "%s-%s-%s.json" % (prop, re.sub(r"[^A-Za-z0-9_.@-]", "_", viol["script"])[:60], hashlib.md5(json.dumps(viol, sort_keys=True).encode()).hexdigest()[:8])
    path = os.path.join(REPLAYS, prop, name)
    with open(path, "w") as fh:
        json.dump({"property": prop, "violation": viol, "harness_args": harness_args, "script": script, "extra": extra or {}}, fh)
    return path


def write_evidence(prop, tier, seed, level, coverage, wall_s, violations, assumptions):
    os.makedirs(os.path.join(VERIF, "evidence"), exist_ok=True)
    ev = {"property_id": prop, "tier": tier, "seed": seed, "level": level, "coverage": coverage,
          "assumptions": assumptions, "wall_s": round(wall_s, 1), "violations": violations}
    with open(os.path.join(VERIF, "evidence", prop + ".json"), "w") as fh:
        json.dump(ev, fh, indent=1, sort_keys=True)
