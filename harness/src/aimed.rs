//! Aimed script generation: scripts are generated step by step while being executed on a scratch
//! log, so that the generator can see the live write cursor and place operations at the alignment
//! classes the specification distinguishes (entry ends exactly at / just before a block or file
//! end, record boundaries that coincide with frame boundaries, GC position entries that straddle
//! a roll-over, roll-over caused by a non-append entry ...).  The result is an ordinary static
//! script; the cursor arithmetic below only aims inputs, it is never used as an oracle.
use mrecordlog::MultiRecordLog;

use crate::exec::{apply_step, TempDir};
use crate::gen::{anchors, Rng};
use crate::script::{policy_of, Payload, Script, Step};

const BLOCK: usize = 32_768;
const HDR: usize = 7;
const FILE: usize = 4 * BLOCK;

/// Bytes the writer spends on an entry of `len` bytes when the cursor is at `off` in its file.
fn cost(off: usize, len: usize) -> usize {
    let mut off = off % FILE;
    let mut rest = len;
    let mut spent = 0;
    loop {
        let rem = BLOCK - off % BLOCK;
        if rem < HDR {
            spent += rem;
            off = (off + rem) % FILE;
            continue;
        }
        let take = rest.min(rem - HDR);
        spent += HDR + take;
        off = (off + HDR + take) % FILE;
        rest -= take;
        if rest == 0 {
            return spent;
        }
    }
}

thread_local! {
    /// the script generated so far: if the library under test fails during generation (a reopen
    /// that errors or panics), generation stops and the partial script is used - the normal run
    /// then observes the failure as data
    static PARTIAL: std::cell::RefCell<Option<Script>> = const { std::cell::RefCell::new(None) };
}

struct Live {
    script: Script,
    log: Option<MultiRecordLog>,
    _dir: TempDir,
    rng: Rng,
    payload_seed: u64,
}

impl Live {
    fn new(name: String, policy: &str, queues: Vec<String>, seed: u64) -> Live {
        let dir = TempDir::new();
        let log = MultiRecordLog::open_with_prefs(&dir.path, policy_of(policy)).unwrap();
        Live {
            script: Script {
                name,
                policy: policy.to_string(),
                queues,
                anchors: anchors(),
                steps: Vec::new(),
                expect: None,
            },
            log: Some(log),
            _dir: dir,
            rng: Rng(seed.wrapping_mul(0x5851_F42D).wrapping_add(77)),
            payload_seed: seed << 24,
        }
    }

    fn off(&self) -> usize {
        self.log.as_ref().unwrap().verif_snapshot().writer_offset
    }

    fn push(&mut self, step: Step) {
        if let Step::Restart = step {
            drop(self.log.take());
            self.log = Some(
                MultiRecordLog::open_with_prefs(&self._dir.path, policy_of(&self.script.policy)).unwrap(),
            );
        } else {
            let _ = apply_step(&self.script, self.log.as_mut().unwrap(), &step);
        }
        self.script.steps.push(step);
        PARTIAL.with(|cell| *cell.borrow_mut() = Some(self.script.clone()));
    }

    fn payload(&mut self, len: usize) -> Payload {
        self.payload_seed += 1;
        Payload {
            seed: self.payload_seed,
            len,
            embed: None,
        }
    }

    fn entry_overhead(&self, q: usize) -> usize {
        11 + self.script.queues[q].len()
    }

    /// Appends one record to `q` sized so that the cursor ends `gap` bytes before the end of the
    /// current block (`to_file_end` false) or file; several appends if the distance is large.
    fn fill_to(&mut self, q: usize, gap: usize, to_file_end: bool) {
        for _ in 0..8 {
            let off = self.off() % FILE;
            let unit = if to_file_end { FILE } else { BLOCK };
            let boundary = (off / unit + 1) * unit;
            if boundary < off + gap {
                return;
            }
            let distance = boundary - gap - off;
            if distance == 0 {
                return;
            }
            let overhead = self.entry_overhead(q) + 12;
            // largest payload whose entry costs at most `distance`
            let max_single = 100_000usize;
            let mut best: Option<usize> = None;
            let mut lo = 0usize;
            let mut hi = max_single.min(distance);
            while lo <= hi {
                let mid = (lo + hi) / 2;
                let spent = cost(off, overhead + mid);
                if spent <= distance {
                    best = Some(mid);
                    lo = mid + 1;
                } else {
                    if mid == 0 {
                        break;
                    }
                    hi = mid - 1;
                }
            }
            match best {
                Some(len) => {
                    let spent = cost(off, overhead + len);
                    let payload = self.payload(len);
                    self.push(Step::Append {
                        q,
                        pos: None,
                        batch: vec![payload],
                    });
                    if spent == distance {
                        return;
                    }
                }
                None => return,
            }
        }
    }

    fn last_position(&self, q: usize) -> Option<u64> {
        self.log.as_ref().unwrap().last_position(&self.script.queues[q]).ok().flatten()
    }
}

fn names(rng: &mut Rng, n: usize) -> Vec<String> {
    (0..n)
        .map(|idx| match rng.below(3) {
            0 => format!("q{idx}"),
            1 => format!("idle-queue-{idx:02}-{}", "x".repeat(rng.below(24) as usize)),
            _ => format!("q{idx}-é"),
        })
        .collect()
}

/// GC position entries written around a roll-over (the empty queues' only evidence).
fn aim_gc(seed: u64, policy: &str) -> Script {
    let mut rng = Rng(seed ^ 0xA1);
    let idle = 1 + rng.below(8) as usize;
    let queues = names(&mut rng, idle + 1);
    let busy = idle;
    let mut live = Live::new(format!("aim-gc-{seed}"), policy, queues, seed);
    for q in 0..=idle {
        live.push(Step::Create { q });
    }
    for q in 0..idle {
        let n = 1 + live.rng.below(3) as usize;
        let batch: Vec<Payload> = (0..n).map(|_| live.payload(10)).collect();
        let pos = if live.rng.chance(40) { Some(live.rng.below(50)) } else { None };
        live.push(Step::Append { q, pos, batch });
        let last = live.last_position(q).unwrap_or(0);
        let p = last + live.rng.below(2) * live.rng.below(30);
        live.push(Step::Truncate { q, p });
    }
    // fill file 0 and most of file 1 with the busy queue
    let rounds = 1 + live.rng.below(2);
    for _ in 0..rounds {
        // total bytes of the position entries the GC pass will write
        let pos_total: usize = (0..idle).map(|q| 7 + live.entry_overhead(q)).sum();
        let own = 7 + live.entry_overhead(busy);
        let choice = live.rng.below(8);
        let gap = match choice {
            // the pass fits and leaves less than a second pass needs: a recovery that repeats the
            // pass (crash before its unlinks) has to roll over
            6 | 7 => own + 2 * pos_total + 7 + live.entry_overhead(busy) - live.rng.below(pos_total as u64) as usize,
            0 => own + live.rng.below(pos_total as u64 + 1) as usize,
            1 => own + pos_total / 2,
            2 => own + pos_total,
            3 => own + pos_total.saturating_sub(1 + live.rng.below(8) as usize),
            4 => live.rng.below(own as u64 + 8) as usize,
            _ => own + 7 + live.entry_overhead(0) + live.rng.below(7) as usize,
        };
        // make sure at least one roll-over happened before
        if live.log.as_ref().unwrap().verif_snapshot().writer_file == 0 {
            live.fill_to(busy, 0, true);
            let payload = live.payload(20);
            live.push(Step::Append { q: busy, pos: None, batch: vec![payload] });
        }
        live.fill_to(busy, gap, true);
        let last = live.last_position(busy).unwrap_or(0);
        live.push(Step::Truncate { q: busy, p: last });
        if live.rng.chance(50) {
            // a second pass right behind the first, while the writer is still in the file the first
            // pass rolled into: the file the first pass kept (it was being written) is vacated now,
            // and with it the head of any position entry that straddled the file boundary
            let payload = live.payload(3);
            live.push(Step::Append { q: busy, pos: None, batch: vec![payload] });
            let last = live.last_position(busy).unwrap_or(0);
            live.push(Step::Truncate { q: busy, p: last });
            if live.rng.chance(50) {
                live.push(Step::Restart);
            }
        } else if live.rng.chance(60) {
            live.push(Step::Restart);
        }
        for q in 0..=idle {
            if live.rng.chance(70) {
                let payload = live.payload(12);
                live.push(Step::Append { q, pos: None, batch: vec![payload] });
            }
        }
        for q in 0..idle {
            if let Some(last) = live.last_position(q) {
                if live.rng.chance(70) {
                    live.push(Step::Truncate { q, p: last });
                }
            }
        }
    }
    live.push(Step::Restart);
    for q in 0..=idle {
        let payload = live.payload(5);
        live.push(Step::Append { q, pos: None, batch: vec![payload] });
    }
    live.script
}

/// Roll-over caused by non-append entries (truncate / create / delete / position entries).
fn aim_roll(seed: u64, policy: &str) -> Script {
    let mut rng = Rng(seed ^ 0xB2);
    let queues = names(&mut rng, 4);
    let mut live = Live::new(format!("aim-roll-{seed}"), policy, queues, seed);
    live.push(Step::Create { q: 0 });
    live.push(Step::Create { q: 1 });
    for _ in 0..1 + live.rng.below(2) {
        let control = 7 + live.entry_overhead(1);
        let gap = match live.rng.below(5) {
            0 => control,
            1 => control + 1 + live.rng.below(6) as usize,
            2 => control.saturating_sub(1 + live.rng.below(6) as usize),
            3 => 2 * control + live.rng.below(3) as usize,
            _ => live.rng.below(3 * control as u64) as usize,
        };
        live.fill_to(0, gap, true);
        // free the file: nothing of queue 0 retained
        if live.rng.chance(70) {
            let last = live.last_position(0).unwrap_or(0);
            live.push(Step::Truncate { q: 0, p: last });
        }
        let mut first = true;
        for _ in 0..2 + live.rng.below(3) {
            let pick = if first && live.rng.chance(40) { 3 } else { live.rng.below(6) };
            first = false;
            match pick {
                0 | 1 | 2 => {
                    let p = live.last_position(1).unwrap_or(0) + live.rng.below(3);
                    live.push(Step::Truncate { q: 1, p });
                }
                3 => {
                    live.push(Step::Create { q: 2 });
                    if live.rng.chance(50) {
                        // a roll-over caused by create_queue leaves the old file to the next GC
                        // pass: appends on empty queues in that window
                        let payload = live.payload(9);
                        live.push(Step::Append { q: 2, pos: None, batch: vec![payload] });
                        let payload = live.payload(4);
                        live.push(Step::Append { q: 1, pos: None, batch: vec![payload] });
                        if live.rng.chance(50) {
                            live.push(Step::Restart);
                        }
                    }
                    live.push(Step::Delete { q: 2 });
                }
                4 => {
                    let payload = live.payload(3);
                    live.push(Step::Append { q: 1, pos: None, batch: vec![payload] });
                }
                _ => live.push(Step::Restart),
            }
        }
        let payload = live.payload(30);
        live.push(Step::Append { q: 0, pos: None, batch: vec![payload] });
    }
    live.script
}

/// Batches whose record boundaries coincide with frame boundaries.
fn aim_batch(seed: u64, policy: &str) -> Script {
    let mut rng = Rng(seed ^ 0xC3);
    let queues = names(&mut rng, 3);
    let mut live = Live::new(format!("aim-batch-{seed}"), policy, queues, seed);
    live.push(Step::Create { q: 0 });
    live.push(Step::Create { q: 1 });
    for _ in 0..1 + live.rng.below(3) {
        // drift
        let drift = live.rng.below(40_000) as usize;
        let payload = live.payload(drift);
        live.push(Step::Append { q: 1, pos: None, batch: vec![payload] });
        let off = live.off() % FILE;
        let rem = BLOCK - off % BLOCK;
        let first_capacity = if rem >= HDR { rem - HDR } else { BLOCK - HDR };
        let overhead = live.entry_overhead(0);
        let mut batch = Vec::new();
        if first_capacity >= overhead + 12 && live.rng.chance(80) {
            // first record fills the first frame exactly
            batch.push(live.payload(first_capacity - overhead - 12));
        } else {
            let len = live.rng.below(50) as usize;
            batch.push(live.payload(len));
        }
        if live.rng.chance(35) {
            // periodic record boundaries: an item end e such that e + (BLOCK - HDR) is an item end
            // as well (what remains after a whole Middle frame is cut out still parses)
            let period = BLOCK - HDR; // 32761 = 181 * 181
            let mut batch = Vec::new();
            if live.rng.chance(50) {
                for _ in 0..(3 * 181 + live.rng.below(120)) {
                    batch.push(live.payload(181 - 12));
                }
            } else {
                let a = 40 + live.rng.below(20_000) as usize;
                for _ in 0..3 + live.rng.below(3) {
                    batch.push(live.payload(a - 12));
                    batch.push(live.payload(period - a - 12));
                }
            }
            live.push(Step::Append { q: 0, pos: None, batch });
            if live.rng.chance(30) {
                live.push(Step::Restart);
            }
            continue;
        }
        // mostly a few frames; sometimes enough whole frames to cover a WAL file or two in the middle
        // of the batch (files that hold nothing but continuation frames)
        let long = live.rng.chance(30);
        let middles = if long { 8 + live.rng.below(6) } else { 1 + live.rng.below(4) };
        for _ in 0..middles {
            match live.rng.below(4) {
                0 | 1 => batch.push(live.payload(BLOCK - HDR - 12)),
                2 => {
                    // two records filling one frame
                    let a = live.rng.below(20_000) as usize;
                    batch.push(live.payload(a));
                    batch.push(live.payload(BLOCK - HDR - 24 - a));
                }
                _ => batch.push(live.payload(2 * (BLOCK - HDR) - 12)),
            }
        }
        let len = live.rng.below(200) as usize;
        batch.push(live.payload(len));
        live.push(Step::Append { q: 0, pos: None, batch });
        if long {
            // a GC pass run by a call on another queue while the long batch is retained, then a restart
            live.push(Step::Create { q: 2 });
            live.push(Step::Delete { q: 2 });
            live.push(Step::Restart);
        }
        if live.rng.chance(30) {
            let last = live.last_position(0).unwrap_or(0);
            live.push(Step::Truncate { q: 0, p: last.saturating_sub(2) });
        }
        if live.rng.chance(30) {
            live.push(Step::Restart);
        }
    }
    live.script
}

/// Entries that end exactly at, or just before, block and file ends.
fn aim_block(seed: u64, policy: &str) -> Script {
    let mut rng = Rng(seed ^ 0xD4);
    let queues = names(&mut rng, 3);
    let mut live = Live::new(format!("aim-block-{seed}"), policy, queues, seed);
    live.push(Step::Create { q: 0 });
    live.push(Step::Create { q: 1 });
    let mut q2_exists = false;
    for _ in 0..4 + live.rng.below(6) {
        // up to a little more than the size of a create / delete / truncate entry before the end
        let gap = if live.rng.chance(50) { live.rng.below(10) } else { live.rng.below(50) } as usize;
        let to_file = live.rng.chance(35);
        live.fill_to(0, gap, to_file);
        match live.rng.below(9) {
            // entries that are not appends, each followed (mostly) by a restart and a write
            6 | 7 => {
                if q2_exists {
                    live.push(Step::Delete { q: 2 });
                } else {
                    live.push(Step::Create { q: 2 });
                }
                q2_exists = !q2_exists;
                if live.rng.chance(60) {
                    live.push(Step::Restart);
                }
                let payload = live.payload(9);
                live.push(Step::Append { q: 1, pos: None, batch: vec![payload] });
            }
            8 => {
                if let Some(last) = live.last_position(1) {
                    live.push(Step::Truncate { q: 1, p: last });
                }
                if live.rng.chance(60) {
                    live.push(Step::Restart);
                }
                let payload = live.payload(9);
                live.push(Step::Append { q: 1, pos: None, batch: vec![payload] });
            }
            0 => {
                let payload = live.payload(0);
                live.push(Step::Append { q: 1, pos: None, batch: vec![payload] });
            }
            1 => {
                let len = live.rng.below(3 * BLOCK as u64) as usize;
                let payload = live.payload(len);
                live.push(Step::Append { q: 1, pos: None, batch: vec![payload] });
            }
            2 => {
                let last = live.last_position(0).unwrap_or(0);
                let p = last.saturating_sub(live.rng.below(3));
                live.push(Step::Truncate { q: 0, p });
            }
            3 => live.push(Step::Restart),
            4 => {
                let batch = vec![live.payload(1), live.payload(0), live.payload(BLOCK)];
                live.push(Step::Append { q: 1, pos: None, batch });
            }
            _ => {
                let len = FILE + live.rng.below(100) as usize;
                let payload = live.payload(len);
                live.push(Step::Append { q: 0, pos: None, batch: vec![payload] });
            }
        }
    }
    live.push(Step::Restart);
    live.script
}

/// One queue pins the oldest file with a small record while others fill and vacate several files;
/// releasing the pin makes ONE GC pass unlink several files, each holding entries that supersede
/// data of an older one.
fn aim_pin(seed: u64, policy: &str) -> Script {
    let mut rng = Rng(seed ^ 0xE5);
    let queues = names(&mut rng, 4);
    let mut live = Live::new(format!("aim-pin-{seed}"), policy, queues, seed);
    let pin = 0usize;
    for q in 0..4 {
        live.push(Step::Create { q });
    }
    let payload = live.payload(8);
    live.push(Step::Append { q: pin, pos: None, batch: vec![payload] });
    let files = 2 + live.rng.below(2) as usize;
    let mut used: Vec<usize> = Vec::new();
    for round in 0..files {
        // a different queue fills each file, so that the entry superseding its data exists in
        // exactly one (the next) file
        let bulk = 1 + round % 3;
        used.push(bulk);
        let start_file = live.log.as_ref().unwrap().verif_snapshot().writer_file;
        for _ in 0..12 {
            let len = 20_000 + live.rng.below(20_000) as usize;
            let payload = live.payload(len);
            live.push(Step::Append { q: bulk, pos: None, batch: vec![payload] });
            if live.log.as_ref().unwrap().verif_snapshot().writer_file > start_file {
                break;
            }
        }
        match live.rng.below(3) {
            0 => {
                let last = live.last_position(bulk).unwrap_or(0);
                live.push(Step::Truncate { q: bulk, p: last });
            }
            1 => {
                live.push(Step::Delete { q: bulk });
                live.push(Step::Create { q: bulk });
            }
            _ => {
                let last = live.last_position(bulk).unwrap_or(0);
                live.push(Step::Truncate { q: bulk, p: last.saturating_sub(1) });
                live.push(Step::Truncate { q: bulk, p: last + 3 });
            }
        }
    }
    // the vacated queues become non-empty again (so that no GC position entry speaks for them)
    for bulk in used {
        if live.rng.chance(75) {
            let payload = live.payload(11);
            live.push(Step::Append { q: bulk, pos: None, batch: vec![payload] });
        }
    }
    // release the pin: everything old goes in one pass
    let payload = live.payload(6);
    live.push(Step::Append { q: pin, pos: None, batch: vec![payload] });
    let last = live.last_position(pin).unwrap_or(0);
    if live.rng.chance(50) {
        live.push(Step::Truncate { q: pin, p: last.saturating_sub(1) });
    } else {
        live.push(Step::Delete { q: pin });
    }
    if live.rng.chance(50) {
        live.push(Step::Restart);
    }
    let payload = live.payload(7);
    live.push(Step::Append { q: 1, pos: None, batch: vec![payload] });
    live.script
}

/// Every rejected / no-op call shape issued when the cursor sits at, or a few bytes before, a block
/// or file end (where a call that really wrote would pad or roll over).
fn aim_noop(seed: u64, policy: &str) -> Script {
    let mut rng = Rng(seed ^ 0xF6);
    let queues = names(&mut rng, 4);
    let mut live = Live::new(format!("aim-noop-{seed}"), policy, queues, seed);
    live.push(Step::Create { q: 0 });
    live.push(Step::Create { q: 1 });
    let mut q3_exists = false;
    for _ in 0..2 + live.rng.below(3) {
        let gap = live.rng.below(9) as usize;
        let to_file = live.rng.chance(60);
        live.fill_to(0, gap, to_file);
        if live.rng.chance(50) {
            // leave an unreferenced file behind: every queue vacated, then a create_queue whose
            // position entry does not fit any more rolls over (create_queue runs no GC pass); the
            // calls below must not be the ones that collect it
            if q3_exists {
                live.push(Step::Delete { q: 3 });
            }
            if let Some(last) = live.last_position(1) {
                live.push(Step::Truncate { q: 1, p: last });
            }
            // room for the truncate entry of queue 0 plus less than the position entry of queue 3
            let own0 = 7 + live.entry_overhead(0);
            let own3 = 7 + live.entry_overhead(3);
            let rest = 8 + live.rng.below((own3 - 8) as u64) as usize;
            live.fill_to(0, own0 + rest, true);
            if let Some(last) = live.last_position(0) {
                live.push(Step::Truncate { q: 0, p: last });
            }
            live.push(Step::Create { q: 3 });
            q3_exists = true;
        }
        let next = live.last_position(0).map(|last| last + 1).unwrap_or(0);
        // the no-op shapes, in random order
        let mut shapes: Vec<Step> = vec![
            Step::Append { q: 0, pos: None, batch: vec![] },
            Step::Append { q: 0, pos: Some(next), batch: vec![] },
            Step::Append { q: 0, pos: Some(next + 5), batch: vec![] },
            Step::Append { q: 1, pos: None, batch: vec![] },
            Step::Create { q: 0 },
            Step::Delete { q: 2 },
            Step::Truncate { q: 2, p: 3 },
        ];
        let retry_payload = live.payload(4);
        shapes.push(Step::Append { q: 2, pos: None, batch: vec![retry_payload] });
        if next > 0 {
            let payload = live.payload(4);
            shapes.push(Step::Append { q: 0, pos: Some(next - 1), batch: vec![payload] });
        }
        if next > 1 {
            let payload = live.payload(4);
            shapes.push(Step::Append { q: 0, pos: Some(next - 2), batch: vec![payload] });
        }
        while !shapes.is_empty() {
            let idx = live.rng.below(shapes.len() as u64) as usize;
            let step = shapes.remove(idx);
            live.push(step);
        }
        if live.rng.chance(40) {
            live.push(Step::Restart);
        }
        let payload = live.payload(10);
        live.push(Step::Append { q: 1, pos: None, batch: vec![payload] });
    }
    live.script
}

/// A queue deleted and re-created inside one block (behind another frame of that block), then a
/// batch with more records than the old incarnation held, in a later block: what is left if the
/// block with the delete / re-create entries is quarantined.
fn aim_recreate(seed: u64, policy: &str) -> Script {
    let mut rng = Rng(seed ^ 0x17);
    let queues = names(&mut rng, 2);
    let mut live = Live::new(format!("aim-recreate-{seed}"), policy, queues, seed);
    live.push(Step::Create { q: 0 });
    live.push(Step::Create { q: 1 });
    for _ in 0..1 + live.rng.below(2) {
        let old = 1 + live.rng.below(5) as usize;
        for _ in 0..old {
            let len = live.rng.below(30) as usize;
            let payload = live.payload(len);
            live.push(Step::Append { q: 0, pos: None, batch: vec![payload] });
        }
        // move into the next block; its first frame is the tail of this filler
        let len = BLOCK - 2000 + live.rng.below(4000) as usize;
        let payload = live.payload(len);
        live.push(Step::Append { q: 1, pos: None, batch: vec![payload] });
        if live.rng.chance(50) {
            let payload = live.payload(20);
            live.push(Step::Append { q: 1, pos: None, batch: vec![payload] });
        }
        // (sometimes the old incarnation is truncated first: its Truncate entry stays in the log and
        // must not reach the records of the new incarnation at a replay)
        let mut old_truncation = None;
        if live.rng.chance(50) {
            let p = live.rng.below(old as u64);
            live.push(Step::Truncate { q: 0, p });
            old_truncation = Some(p);
        }
        live.push(Step::Delete { q: 0 });
        live.push(Step::Create { q: 0 });
        // leave that block
        let len = BLOCK + live.rng.below(3000) as usize;
        let payload = live.payload(len);
        live.push(Step::Append { q: 1, pos: None, batch: vec![payload] });
        let fresh = old + 1 + live.rng.below(4) as usize;
        let batch: Vec<Payload> = (0..fresh).map(|_| live.payload(9)).collect();
        live.push(Step::Append { q: 0, pos: None, batch });
        // (and the new incarnation sometimes gets the very truncation the old one got: the same
        // call, on the same name, with the same bound - a different operation all the same)
        if let Some(p) = old_truncation {
            if live.rng.chance(60) {
                live.push(Step::Truncate { q: 0, p });
            }
        }
        if live.rng.chance(50) {
            live.push(Step::Restart);
        }
    }
    live.script
}

/// The seam between two WAL files: a record appended when exactly 7*m (or 0..9) bytes are left in
/// the file - its first frame (possibly empty) closes the file, the rest lies in the next one -
/// is the only thing that keeps the old file alive; then two clean restarts.
fn aim_seam(seed: u64, policy: &str) -> Script {
    let mut rng = Rng(seed ^ 0x29);
    let queues = names(&mut rng, 3);
    let mut live = Live::new(format!("aim-seam-{seed}"), policy, queues, seed);
    let (filler, keeper) = (0usize, 1usize);
    live.push(Step::Create { q: filler });
    live.push(Step::Create { q: keeper });
    for _ in 0..1 + live.rng.below(2) {
        let m = 1 + live.rng.below(3) as usize;
        let gap = if live.rng.chance(70) { 7 * m } else { live.rng.below(24) as usize };
        live.fill_to(filler, gap, true);
        // a keeper record that needs m frames in the new file
        let overhead = live.entry_overhead(keeper) + 12;
        let frame = BLOCK - HDR;
        let len = if m == 1 {
            live.rng.below(2000) as usize
        } else {
            ((m - 1) * frame + 1 + live.rng.below(2000) as usize).saturating_sub(overhead)
        };
        if live.rng.chance(30) {
            let batch = vec![live.payload(len / 2), live.payload(len - len / 2)];
            live.push(Step::Append { q: keeper, pos: None, batch });
        } else {
            let payload = live.payload(len);
            live.push(Step::Append { q: keeper, pos: None, batch: vec![payload] });
        }
        // nothing else retained in the old file
        let last = live.last_position(filler).unwrap_or(0);
        live.push(Step::Truncate { q: filler, p: last });
        live.push(Step::Restart);
        if live.rng.chance(60) {
            let payload = live.payload(4);
            live.push(Step::Append { q: keeper, pos: None, batch: vec![payload] });
        }
        live.push(Step::Restart);
        let payload = live.payload(30);
        live.push(Step::Append { q: filler, pos: None, batch: vec![payload] });
    }
    live.script
}

/// Entries spanning several WAL files written when nothing (or only the newest file) is retained:
/// a crash inside such an append leaves first / middle frames in files that hold nothing else; a
/// recovery has to walk them, resume the writer behind them and reclaim the files it walked.
fn aim_span(seed: u64, policy: &str) -> Script {
    let mut rng = Rng(seed ^ 0x5A);
    let nq = 1 + rng.below(3) as usize;
    // one more queue that only ever gets created and deleted (a delete_queue runs a GC pass while
    // the spanning entry is retained)
    let queues = names(&mut rng, nq + 1);
    let victim = nq;
    let mut victim_exists = false;
    let mut live = Live::new(format!("aim-span-{seed}"), policy, queues, seed);
    for q in 0..nq {
        live.push(Step::Create { q });
    }
    let rounds = 1 + live.rng.below(3);
    for _ in 0..rounds {
        // some traffic, possibly a roll-over
        for _ in 0..live.rng.below(4) {
            let q = live.rng.below(nq as u64) as usize;
            let len = [10usize, 3_000, 50_000, 90_000][live.rng.below(4) as usize];
            let payload = live.payload(len);
            live.push(Step::Append { q, pos: None, batch: vec![payload] });
        }
        // vacate: every queue truncated to its last record (mostly), so that at most the newest
        // file is retained
        for q in 0..nq {
            if let Some(last) = live.last_position(q) {
                if live.rng.chance(85) {
                    live.push(Step::Truncate { q, p: last });
                }
            }
        }
        if live.rng.chance(60) {
            // start the spanning entry at a chosen distance from the end of the file
            let gap = [0usize, 0, 3, 6, 6, 7, 8, 20, 40_000][live.rng.below(9) as usize];
            let q = live.rng.below(nq as u64) as usize;
            live.fill_to(q, gap, true);
            if let Some(last) = live.last_position(q) {
                live.push(Step::Truncate { q, p: last });
            }
        }
        if live.rng.chance(30) {
            live.push(Step::Restart);
        }
        // the spanning entry: 1.1 to 3.2 files' worth, as one record or as a batch
        let q = live.rng.below(nq as u64) as usize;
        let total = FILE + live.rng.below(2 * FILE as u64 + FILE as u64 / 5) as usize + FILE / 10;
        let batch: Vec<Payload> = if live.rng.chance(60) {
            vec![live.payload(total)]
        } else {
            let n = 2 + live.rng.below(4) as usize;
            (0..n).map(|_| live.payload(total / n)).collect()
        };
        live.push(Step::Append { q, pos: None, batch });
        if live.rng.chance(50) {
            // a GC pass triggered by another queue while the spanning entry is retained
            if victim_exists {
                live.push(Step::Delete { q: victim });
            } else {
                live.push(Step::Create { q: victim });
                live.push(Step::Delete { q: victim });
            }
            victim_exists = false;
            if live.rng.chance(60) {
                live.push(Step::Restart);
            }
        } else if live.rng.chance(30) {
            live.push(Step::Create { q: victim });
            victim_exists = true;
        }
        if live.rng.chance(50) {
            if let Some(last) = live.last_position(q) {
                live.push(Step::Truncate { q, p: last });
            }
        }
    }
    let _ = victim_exists;
    live.push(Step::Restart);
    for q in 0..nq {
        let payload = live.payload(5);
        live.push(Step::Append { q, pos: None, batch: vec![payload] });
    }
    live.script
}

/// A stale truncate on an idle, empty queue whose OWN GC pass deletes the files that hold every
/// older mention of the queue: files that contain nothing retained can pile up without any GC pass
/// when create_queue entries (here: with very long names) roll the log over.
fn aim_stale(seed: u64, policy: &str) -> Script {
    let mut rng = Rng(seed ^ 0x57A1E);
    let bulk = 3 + rng.below(3) as usize;
    let mut queues = vec![format!("idle-{}", rng.below(100)), "other".to_string()];
    for idx in 0..bulk {
        queues.push(format!("{idx}{}", "n".repeat(50_000 + rng.below(15_000) as usize)));
    }
    let mut live = Live::new(format!("aim-stale-{seed}"), policy, queues, seed);
    live.push(Step::Create { q: 0 });
    live.push(Step::Create { q: 1 });
    let n = 2 + live.rng.below(6) as usize;
    for _ in 0..n {
        let payload = live.payload(20);
        live.push(Step::Append { q: 0, pos: None, batch: vec![payload] });
    }
    let last = live.last_position(0).unwrap_or(0);
    // the queue is emptied, possibly moved into the future
    let reach = if live.rng.chance(40) { last + 10 + live.rng.below(40) } else { last };
    live.push(Step::Truncate { q: 0, p: reach });
    if live.rng.chance(40) {
        let payload = live.payload(9);
        live.push(Step::Append { q: 1, pos: None, batch: vec![payload] });
        live.push(Step::Truncate { q: 1, p: 0 });
    }
    // roll the log over with entries that nobody retains and that run no GC pass
    for q in 2..2 + bulk {
        live.push(Step::Create { q });
    }
    // the stale truncate: below what the queue has reached; its GC pass has files to delete
    let stale = reach.saturating_sub(1 + live.rng.below(reach.min(5) + 1));
    live.push(Step::Truncate { q: 0, p: stale });
    if live.rng.chance(30) {
        live.push(Step::Truncate { q: 0, p: stale });
    }
    live.push(Step::Restart);
    let payload = live.payload(7);
    live.push(Step::Append { q: 0, pos: None, batch: vec![payload] });
    live.push(Step::Restart);
    let payload = live.payload(7);
    live.push(Step::Append { q: 0, pos: None, batch: vec![payload] });
    live.script
}

pub fn is_aimed(profile: &str) -> bool {
    profile.starts_with("aim-")
}

pub fn generate(profile: &str, seed: u64, policy: &str) -> Script {
    // generation runs the library; recording must not pick up its events
    PARTIAL.with(|cell| *cell.borrow_mut() = None);
    let profile_owned = profile.to_string();
    let policy_owned = policy.to_string();
    let result = std::panic::catch_unwind(move || match profile_owned.as_str() {
        "aim-gc" => aim_gc(seed, &policy_owned),
        "aim-roll" => aim_roll(seed, &policy_owned),
        "aim-batch" => aim_batch(seed, &policy_owned),
        "aim-block" => aim_block(seed, &policy_owned),
        "aim-pin" => aim_pin(seed, &policy_owned),
        "aim-noop" => aim_noop(seed, &policy_owned),
        "aim-recreate" => aim_recreate(seed, &policy_owned),
        "aim-seam" => aim_seam(seed, &policy_owned),
        "aim-span" => aim_span(seed, &policy_owned),
        "aim-stale" => aim_stale(seed, &policy_owned),
        other => panic!("unknown aimed profile {other}"),
    });
    mrecordlog::verif::take_events();
    match result {
        Ok(script) => script,
        Err(_) => PARTIAL.with(|cell| cell.borrow_mut().take()).unwrap_or_else(|| Script {
            name: format!("{profile}-{seed}"),
            policy: policy.to_string(),
            queues: vec!["q".to_string()],
            anchors: anchors(),
            steps: Vec::new(),
            expect: None,
        }),
    }
}
