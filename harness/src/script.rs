//! Script (history) format and small shared helpers.
use serde::{Deserialize, Serialize};

#[derive(Debug, Clone, Serialize, Deserialize, PartialEq)]
pub struct Payload {
    /// seed of the pseudo-random content
    pub seed: u64,
    pub len: usize,
    /// if set: the payload embeds, at byte offset `at`, the image of a well-formed frame carrying
    /// an AppendRecords entry for queue index `q`, position `pos`, with a payload of `plen` bytes
    /// generated from `pseed` (payload class `Embeds` of the specification).
    #[serde(default, skip_serializing_if = "Option::is_none")]
    pub embed: Option<Embed>,
}

#[derive(Debug, Clone, Serialize, Deserialize, PartialEq)]
pub struct Embed {
    pub at: usize,
    pub q: usize,
    pub pos: u64,
    pub pseed: u64,
    pub plen: usize,
}

#[derive(Debug, Clone, Serialize, Deserialize, PartialEq)]
#[serde(tag = "op", rename_all = "lowercase")]
pub enum Step {
    Create {
        q: usize,
    },
    Delete {
        q: usize,
    },
    Append {
        q: usize,
        #[serde(default)]
        pos: Option<u64>,
        batch: Vec<Payload>,
    },
    Truncate {
        q: usize,
        p: u64,
    },
    Persist {
        fsync: bool,
    },
    Restart,
}

impl Step {
    pub fn queue(&self) -> Option<usize> {
        match self {
            Step::Create { q } | Step::Delete { q } => Some(*q),
            Step::Append { q, .. } | Step::Truncate { q, .. } => Some(*q),
            _ => None,
        }
    }
}

#[derive(Debug, Clone, Serialize, Deserialize, PartialEq)]
pub struct Script {
    pub name: String,
    /// one of: always_flush, always_fsync, do_nothing, on_delay_0_flush, on_delay_0_fsync,
    /// on_delay_long_flush, on_delay_long_fsync
    pub policy: String,
    /// queue index -> real queue name
    pub queues: Vec<String>,
    /// position anchors, strictly increasing, first one 0
    pub anchors: Vec<u64>,
    pub steps: Vec<Step>,
    /// state predicted by the specification at the end of the script (TLC-generated scripts):
    /// {"abs": [{"a":0|1,"next":n,"recs":[[pos,len],..]},..], "w": [file, off], "files": [..]}
    #[serde(default, skip_serializing_if = "Option::is_none")]
    pub expect: Option<serde_json::Value>,
}

pub const ANCHOR_SPAN: u64 = 1 << 24;

impl Script {
    /// Order preserving, +small preserving encoding of a u64 position into a 30 bit integer.
    /// -2 = cannot be expressed (further than 2^24 from every anchor below it).
    pub fn enc(&self, position: u64) -> i64 {
        let mut k = 0;
        for (idx, anchor) in self.anchors.iter().enumerate() {
            if *anchor <= position {
                k = idx;
            }
        }
        let delta = position - self.anchors[k];
        if delta >= ANCHOR_SPAN {
            return -2;
        }
        if k + 1 < self.anchors.len() && self.anchors[k + 1] - self.anchors[k] < ANCHOR_SPAN {
            // anchors too close for the encoding to be injective
            return -2;
        }
        (k as i64) * (ANCHOR_SPAN as i64) + delta as i64
    }

    pub fn enc_opt(&self, position: Option<u64>) -> i64 {
        match position {
            Some(position) => self.enc(position),
            None => -1,
        }
    }

    pub fn queue_index(&self, name: &str) -> i64 {
        self.queues
            .iter()
            .position(|queue| queue == name)
            .map(|idx| idx as i64)
            .unwrap_or(-1)
    }
}

pub fn splitmix(state: &mut u64) -> u64 {
    *state = state.wrapping_add(0x9E37_79B9_7F4A_7C15);
    let mut z = *state;
    z = (z ^ (z >> 30)).wrapping_mul(0xBF58_476D_1CE4_E5B9);
    z = (z ^ (z >> 27)).wrapping_mul(0x94D0_49BB_1331_11EB);
    z ^ (z >> 31)
}

/// Deterministic pseudo-random content; never all zero for len >= 1 (first byte is forced
/// non-zero so that a payload cannot be mistaken for untouched file space).
/// Seeds with these top 16 bits give regular content instead of pseudo-random bytes: one byte
/// repeated, or a pattern whose period is the payload capacity of a frame that fills a block
/// (consecutive block-filling frames of such a record are byte-identical, headers included).
pub const UNIFORM_SEED: u64 = 0xF111 << 48;
pub const PERIODIC_SEED: u64 = 0xF222 << 48;

pub fn plain_bytes(seed: u64, len: usize) -> Vec<u8> {
    if seed >> 48 == UNIFORM_SEED >> 48 {
        return vec![(seed & 0xff) as u8 | 1; len];
    }
    if seed >> 48 == PERIODIC_SEED >> 48 {
        let period = 32_768 - 7;
        let base = plain_bytes(seed & 0xffff_ffff, period);
        return (0..len).map(|idx| base[idx % period]).collect();
    }
    let mut state = seed ^ 0xA5A5_5A5A_1234_5678;
    let mut out = Vec::with_capacity(len + 8);
    while out.len() < len {
        out.extend_from_slice(&splitmix(&mut state).to_le_bytes());
    }
    out.truncate(len);
    if let Some(first) = out.first_mut() {
        *first |= 1;
    }
    out
}

/// 30-bit content digest used as payload identity in traces.
pub fn digest(bytes: &[u8]) -> i64 {
    let mut hasher = crc32fast::Hasher::new_with_initial(0x5EED_1234);
    hasher.update(&(bytes.len() as u64).to_le_bytes());
    hasher.update(bytes);
    (hasher.finalize() >> 2) as i64
}

pub fn policy_of(name: &str) -> mrecordlog::PersistPolicy {
    use mrecordlog::{PersistAction, PersistPolicy};
    use std::time::Duration;
    match name {
        "always_flush" => PersistPolicy::Always(PersistAction::Flush),
        "always_fsync" => PersistPolicy::Always(PersistAction::FlushAndFsync),
        "do_nothing" => PersistPolicy::DoNothing,
        "on_delay_0_flush" => PersistPolicy::OnDelay {
            interval: Duration::from_nanos(0),
            action: PersistAction::Flush,
        },
        "on_delay_0_fsync" => PersistPolicy::OnDelay {
            interval: Duration::from_nanos(0),
            action: PersistAction::FlushAndFsync,
        },
        // an interval of the order of one call: whether a given call persists depends on the clock
        "on_delay_us_flush" => PersistPolicy::OnDelay {
            interval: Duration::from_micros(60),
            action: PersistAction::Flush,
        },
        "on_delay_us_fsync" => PersistPolicy::OnDelay {
            interval: Duration::from_micros(60),
            action: PersistAction::FlushAndFsync,
        },
        "on_delay_long_flush" => PersistPolicy::OnDelay {
            interval: Duration::from_secs(3600),
            action: PersistAction::Flush,
        },
        "on_delay_long_fsync" => PersistPolicy::OnDelay {
            interval: Duration::from_secs(3600),
            action: PersistAction::FlushAndFsync,
        },
        other => panic!("unknown policy {other}"),
    }
}

pub const POLICIES: [&str; 9] = [
    "on_delay_us_flush",
    "on_delay_us_fsync",
    "always_flush",
    "always_fsync",
    "do_nothing",
    "on_delay_0_flush",
    "on_delay_0_fsync",
    "on_delay_long_flush",
    "on_delay_long_fsync",
];
