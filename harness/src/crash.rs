//! Crash expansion: rebuild the directory image at chosen crash points of a recorded run, run the
//! real `open` on it, observe what was recovered, continue with a few calls and a clean restart.
use std::collections::BTreeMap;
use std::sync::mpsc;
use std::sync::Arc;
use std::time::Duration;

use mrecordlog::verif;
use serde_json::{json, Value};

use crate::disk::{BufModel, FileImg, Image, OsEff, TaggedEff};
use crate::exec::{
    apply_step, begin_json, io_json, observe, open_log, RunRecord, TempDir,
};
use crate::script::{splitmix, Payload, Script, Step};

pub const INIT_STEP: usize = usize::MAX;

#[derive(Clone, Copy, PartialEq, Eq, Debug)]
pub enum Tears {
    /// only between OS-level effects
    Boundaries,
    /// boundaries + tears aimed at each written piece: 1, 6, 7, 8, len-1 bytes into it + one random
    Aimed,
    /// every byte of every write
    All,
}

#[derive(Clone, Debug)]
pub struct CrashOpts {
    pub process: bool,
    pub power: bool,
    pub tears: Tears,
    /// run a continuation (append on every queue, restart) on every recovered log
    pub cont: bool,
    /// also crash the recovery itself (at the boundaries of its own OS-level effects)
    pub depth2: bool,
    /// upper bound on the number of crash points per run (evenly thinned), 0 = no bound
    pub max_points: usize,
    pub seed: u64,
    pub deadline: Duration,
    /// at crash points that leave the complete head (but not the last frame) of a multi-frame
    /// append: complete it with an append of exactly the missing size, then retype that frame
    pub glue: bool,
}

/// Runs `f` on a fresh thread; `None` if it does not finish before the deadline (the thread is
/// then leaked, possibly spinning).
pub fn with_deadline<T: Send + 'static>(
    deadline: Duration,
    f: impl FnOnce() -> T + Send + 'static,
) -> Option<T> {
    let (sender, receiver) = mpsc::channel();
    std::thread::Builder::new()
        .stack_size(16 << 20)
        .spawn(move || {
            let _ = sender.send(f());
        })
        .unwrap();
    receiver.recv_timeout(deadline).ok()
}

/// OS-level effects of the whole run, tagged with the step that produced them.
pub fn os_effects(record: &RunRecord, with_final_drop: bool) -> Vec<TaggedEff> {
    let mut out = Vec::new();
    let mut buf = BufModel::default();
    for event in &record.open_events {
        buf.feed(event, INIT_STEP, &mut out);
    }
    for step in &record.steps {
        if let Step::Restart = record.script.steps[step.idx] {
            buf.drop_flush(step.idx, &mut out);
        }
        for event in &step.events {
            buf.feed(event, step.idx, &mut out);
        }
    }
    if with_final_drop {
        let last = record.steps.last().map(|step| step.idx).unwrap_or(INIT_STEP);
        buf.drop_flush(last, &mut out);
    }
    out
}

fn step_order(step: usize) -> i64 {
    if step == INIT_STEP {
        -1
    } else {
        step as i64
    }
}

/// The continuation run on a recovered log: one append on every existing queue of the script,
/// one truncate, then a clean restart. Returns the trace lines.
fn continuation(
    script: &Script,
    dir: &TempDir,
    log: mrecordlog::MultiRecordLog,
    seed: u64,
    glue: Option<(usize, usize)>,
) -> (Vec<Value>, Option<(u64, u64)>) {
    let mut lines = Vec::new();
    let mut log = Some(log);
    let mut state = seed;
    let mut steps: Vec<Step> = Vec::new();
    let mut glue_frame: Option<(u64, u64)> = None;
    // "glue" continuation: the recovered log ends with the dangling head of the in-flight entry;
    // the first append is sized so that head + this entry are exactly as long as the torn entry
    if let Some((q, len)) = glue {
        if log.as_ref().unwrap().queue_exists(&script.queues[q]) {
            steps.push(Step::Append {
                q,
                pos: None,
                batch: vec![Payload { seed: seed ^ 0x61ce, len, embed: None }],
            });
        }
    }
    {
        let log_ref = log.as_ref().unwrap();
        let mut first_existing = None;
        for (q, name) in script.queues.iter().enumerate() {
            if log_ref.queue_exists(name) {
                first_existing.get_or_insert(q);
                let len = (splitmix(&mut state) % 40) as usize;
                steps.push(Step::Append {
                    q,
                    pos: None,
                    batch: vec![Payload {
                        seed: splitmix(&mut state),
                        len,
                        embed: None,
                    }],
                });
            } else if steps.iter().all(|step| !matches!(step, Step::Create { .. })) {
                steps.push(Step::Create { q });
            }
        }
        if let Some(q) = first_existing {
            if let Ok(Some(last)) = log_ref.last_position(&script.queues[q]) {
                let below = last.saturating_sub(1);
                if script.enc(below) >= 0 {
                    steps.push(Step::Truncate { q, p: below });
                } else if script.enc(last) >= 0 {
                    steps.push(Step::Truncate { q, p: last });
                }
            }
        }
        steps.push(Step::Restart);
    }
    for (idx, step) in steps.iter().enumerate() {
        let begin = begin_json(script, 1000 + idx, step);
        if let Step::Restart = step {
            drop(log.take());
            let result = open_log(&dir.path, &script.policy);
            let events = verif::take_events();
            lines.push(begin);
            match result {
                Ok(reopened) => {
                    let st = observe(script, &reopened, &dir.path, seed ^ idx as u64);
                    lines.push(json!({"ev": "end", "i": 1000 + idx, "res": {"k": "ok", "last": -1, "evicted": 0, "wal": 0}, "st": st, "io": io_json(&events), "ent": crate::exec::entries_json(script, &events)}));
                    log = Some(reopened);
                }
                Err(err) => {
                    let kind = if err == "panic" { "panic" } else { "err" };
                    lines.push(json!({"ev": "end", "i": 1000 + idx, "res": {"k": kind, "last": -1, "evicted": 0, "wal": 0}, "errtext": err, "io": io_json(&events)}));
                    break;
                }
            }
            continue;
        }
        let (res, kind) = apply_step(script, log.as_mut().unwrap(), step);
        let events = verif::take_events();
        if idx == 0 && glue.is_some() && glue_frame.is_none() {
            for event in &events {
                if let verif::IoEvent::BufWrite { file, offset, bytes, .. } = event {
                    if bytes.len() >= 7 && bytes[6] == 1 {
                        glue_frame = Some((*file, *offset));
                        break;
                    }
                }
            }
        }
        lines.push(begin);
        if kind == "panic" || kind == "io" {
            lines.push(json!({"ev": "end", "i": 1000 + idx, "res": res, "io": io_json(&events)}));
            break;
        }
        let st = observe(script, log.as_ref().unwrap(), &dir.path, seed ^ idx as u64);
        lines.push(json!({"ev": "end", "i": 1000 + idx, "res": res, "st": st, "io": io_json(&events), "ent": crate::exec::entries_json(script, &events)}));
    }
    (lines, glue_frame)
}

pub struct Recovery {
    /// peak bytes allocated by `open` on the opening thread
    pub peak: usize,
    /// 1 if a read accessor panicked on the returned log
    pub accpanic: i64,
    pub out: String,
    pub errtext: String,
    pub st: Value,
    pub io: Vec<Value>,
    pub cont: Vec<Value>,
    /// OS-level effects of the recovery itself (for the second crash)
    pub effects: Vec<TaggedEff>,
}

/// Opens a copy of the image with the real library, under a deadline.
pub fn recover(
    script: &Arc<Script>,
    files: &BTreeMap<u64, FileImg>,
    cont: bool,
    seed: u64,
    deadline: Duration,
) -> Recovery {
    recover_with(script, files, &[], cont, seed, deadline)
}

/// As `recover`, with a continuation whose first append is sized to complete the dangling head of
/// the in-flight entry, followed by a retyping (Full -> Last) of that append's frame at rest.
pub fn recover_glue(
    script: &Arc<Script>,
    files: &BTreeMap<u64, FileImg>,
    seed: u64,
    deadline: Duration,
    glue: (usize, usize),
) -> Recovery {
    GLUE.with(|cell| cell.set(Some(glue)));
    let recovery = recover_with(script, files, &[], true, seed, deadline);
    GLUE.with(|cell| cell.set(None));
    recovery
}

thread_local! {
    static GLUE: std::cell::Cell<Option<(usize, usize)>> = const { std::cell::Cell::new(None) };
}

/// A directory entry that is not one of the image's WAL files.
#[derive(Clone, Debug)]
pub enum Extra {
    File { name: Vec<u8>, content: Vec<u8> },
    Dir { name: Vec<u8> },
    /// symlink to `target` (a path relative to the directory)
    Symlink { name: Vec<u8>, target: Vec<u8> },
}

pub fn materialize_extras(extras: &[Extra], dir: &std::path::Path) {
    use std::os::unix::ffi::OsStrExt;
    for extra in extras {
        match extra {
            Extra::File { name, content } => {
                std::fs::write(dir.join(std::ffi::OsStr::from_bytes(name)), content).unwrap();
            }
            Extra::Dir { name } => {
                std::fs::create_dir_all(dir.join(std::ffi::OsStr::from_bytes(name))).unwrap();
            }
            Extra::Symlink { name, target } => {
                let _ = std::os::unix::fs::symlink(
                    std::ffi::OsStr::from_bytes(target),
                    dir.join(std::ffi::OsStr::from_bytes(name)),
                );
            }
        }
    }
}

/// A recovery that exceeds the deadline is run a second time with a deadline twelve times as long
/// (at least two minutes) before it is reported as a timeout: on a loaded machine a healthy `open`
/// can miss ten seconds, a spinning one misses any deadline.
pub fn recover_with(
    script: &Arc<Script>,
    files: &BTreeMap<u64, FileImg>,
    extras: &[Extra],
    cont: bool,
    seed: u64,
    deadline: Duration,
) -> Recovery {
    let first = recover_once(script, files, extras, cont, seed, deadline);
    if first.out != "timeout" {
        return first;
    }
    recover_once(script, files, extras, cont, seed, confirm_deadline(deadline))
}

pub fn confirm_deadline(deadline: Duration) -> Duration {
    (deadline * 12).max(Duration::from_secs(120))
}

fn recover_once(
    script: &Arc<Script>,
    files: &BTreeMap<u64, FileImg>,
    extras: &[Extra],
    cont: bool,
    seed: u64,
    deadline: Duration,
) -> Recovery {
    let script_in = script.clone();
    let files_in = files.clone();
    let extras_in = extras.to_vec();
    let glue = GLUE.with(|cell| cell.get());
    let result = with_deadline(deadline, move || {
        let script = script_in;
        let dir = TempDir::new();
        Image::materialize(&files_in, &dir.path);
        materialize_extras(&extras_in, &dir.path);
        crate::alloc::reset_peak();
        verif::set_fault_plan(None);
        verif::start_recording();
        let opened = open_log(&dir.path, &script.policy);
        let peak = crate::alloc::peak();
        let events = verif::take_events();
        let mut effects = Vec::new();
        let mut buf = BufModel::default();
        for event in &events {
            buf.feed(event, 0, &mut effects);
        }
        match opened {
            Ok(log) => {
                let observed = std::panic::catch_unwind(std::panic::AssertUnwindSafe(|| {
                    observe(&script, &log, &dir.path, seed)
                }));
                let st = match observed {
                    Ok(st) => st,
                    Err(_) => {
                        return Recovery {
                            peak,
                            accpanic: 1,
                            out: "ok".to_string(),
                            errtext: "accessor panicked".to_string(),
                            st: Value::Null,
                            io: io_json(&events),
                            cont: Vec::new(),
                            effects,
                        };
                    }
                };
                // the continuation depends only on the recovered abstract state, so that equal
                // recoveries produce equal continuations (and can be grouped)
                let cont_seed = crate::script::digest(st["qs"].to_string().as_bytes()) as u64;
                let cont_lines = if cont {
                    let (mut lines, glue_frame) = continuation(&script, &dir, log, cont_seed, glue);
                    if let Some((file, offset)) = glue_frame {
                        // at rest: retype the frame of the completing append, Full -> Last
                        let mut image = Image::from_dir(&dir.path);
                        if let Some(img) = image.files.get_mut(&file) {
                            if (offset as usize + 6) < img.data.len() && img.data[offset as usize + 6] == 1 {
                                img.data[offset as usize + 6] = 4;
                                let dir2 = TempDir::new();
                                Image::materialize(&image.files, &dir2.path);
                                let reopened = open_log(&dir2.path, &script.policy);
                                verif::take_events();
                                let mut line = json!({
                                    "ev": "damage", "cls": "hdr", "ops": [{"k": "retype", "f": file, "o": offset, "n": 4}],
                                    "hit": {"entry": 0, "kind": "none", "q": -1, "first": -1, "n": 0, "step": -1, "ftype": 1},
                                    "n": 1, "out": "err", "errtext": "", "accpanic": 0, "peak": 0, "allocok": 1, "ncont": 0,
                                    "glue": 1,
                                });
                                match reopened {
                                    Ok(log2) => {
                                        line["out"] = json!("ok");
                                        line["st"] = observe(&script, &log2, &dir2.path, seed);
                                    }
                                    Err(err) => {
                                        line["out"] = json!(if err == "panic" { "panic" } else { "err" });
                                        line["errtext"] = json!(err);
                                    }
                                }
                                lines.push(line);
                            }
                        }
                    }
                    lines
                } else {
                    Vec::new()
                };
                Recovery {
                    peak,
                    accpanic: 0,
                    out: "ok".to_string(),
                    errtext: String::new(),
                    st,
                    io: io_json(&events),
                    cont: cont_lines,
                    effects,
                }
            }
            Err(err) => Recovery {
                peak,
                accpanic: 0,
                out: if err == "panic" { "panic".to_string() } else { "err".to_string() },
                errtext: err,
                st: Value::Null,
                io: io_json(&events),
                cont: Vec::new(),
                effects,
            },
        }
    });
    result.unwrap_or_else(|| Recovery {
        peak: 0,
        accpanic: 0,
        out: "timeout".to_string(),
        errtext: "deadline exceeded".to_string(),
        st: Value::Null,
        io: Vec::new(),
        cont: Vec::new(),
        effects: Vec::new(),
    })
}

/// Only the abstract part of a recovery, for grouping equal outcomes.
/// 1 if the oldest file of the image begins with a well-formed continuation frame (Middle / Last):
/// the head of that entry was in a file that no longer exists (a GC pass interrupted between two
/// unlinks while the oldest files held a multi-file entry).
pub fn orphan_head(files: &BTreeMap<u64, FileImg>) -> i64 {
    let Some((_, oldest)) = files.iter().next() else { return 0 };
    let data = &oldest.data;
    if data.len() < 7 {
        return 0;
    }
    let frame_type = data[6];
    if frame_type != 3 && frame_type != 4 {
        return 0;
    }
    let len = u16::from_le_bytes([data[4], data[5]]) as usize;
    if 7 + len > data.len() {
        return 0;
    }
    let mut hasher = crc32fast::Hasher::default();
    hasher.update(&[frame_type]);
    hasher.update(&data[7..7 + len]);
    let checksum = u32::from_le_bytes([data[0], data[1], data[2], data[3]]);
    (hasher.finalize() == checksum) as i64
}

fn group_key(recovery: &Recovery) -> String {
    let mut key = format!("{}|", recovery.out);
    if let Some(qs) = recovery.st.get("qs") {
        key.push_str(&qs.to_string());
    }
    // what C06 judges after a recovery: the file set, the writer's file, disk usage and the file
    // recovery resumed the writer in (not the byte offset: it differs at every crash point)
    if let Some(files) = recovery.st.get("files") {
        let resumed: Vec<String> = recovery
            .io
            .iter()
            .filter(|event| event["e"] == "SK")
            .take(1)
            .map(|event| event["f"].to_string())
            .collect();
        key.push_str(&format!("|f{}w{}d{}s{}r{:?}", files, recovery.st["w"][0], recovery.st["disk"], recovery.st["dsum"], resumed));
    }
    for line in &recovery.cont {
        if line["ev"] == "damage" {
            key.push_str(&format!("dmg:{}", line["out"]));
            if let Some(qs) = line.get("st").and_then(|st| st.get("qs")) {
                key.push_str(&qs.to_string());
            }
        }
        if line["ev"] == "end" {
            key.push_str(&line["res"].to_string());
            if let Some(qs) = line.get("st").and_then(|st| st.get("qs")) {
                key.push_str(&qs.to_string());
            }
        }
    }
    key
}

pub struct CrashLine {
    /// step after whose `begin` (incall) or `end` (boundary) line this goes
    pub step: usize,
    pub incall: bool,
    pub lines: Vec<Value>,
}

#[derive(Default, Debug, Clone)]
pub struct CrashStats {
    pub points: usize,
    pub opens: usize,
    pub groups: usize,
    pub incall_points: usize,
    pub torn_points: usize,
    pub depth2_points: usize,
    pub not_ok: usize,
    pub timeouts: usize,
    pub glue_points: usize,
}

/// For a crash point inside an append whose entry spans several frames: (queue, payload length of
/// an append that supplies exactly the bytes of the entry that did not reach the OS), provided
/// every frame that reached the OS did so completely and the last frame did not.
fn glue_hint(record: &RunRecord, effects: &[TaggedEff], k: usize) -> Option<(usize, usize)> {
    if k == 0 || k >= effects.len() || effects[k - 1].step != effects[k].step {
        return None;
    }
    let step_idx = effects[k].step;
    if step_idx == INIT_STEP {
        return None;
    }
    let (q, batch) = match &record.script.steps[step_idx] {
        Step::Append { q, batch, .. } => (*q, batch),
        _ => return None,
    };
    let step = record.steps.iter().find(|step| step.idx == step_idx)?;
    // OS watermark per file after the first k effects
    let mut watermark: BTreeMap<u64, u64> = BTreeMap::new();
    for eff in &effects[..k] {
        if let OsEff::Write { file, off, bytes } = &eff.eff {
            let end = off + bytes.len() as u64;
            let mark = watermark.entry(*file).or_insert(0);
            *mark = (*mark).max(end);
        }
    }
    let qlen = record.script.queues[q].len();
    let entry_len: usize = 11 + qlen + batch.iter().map(|payload| 12 + payload.len).sum::<usize>();
    let mut present = 0usize;
    let mut frames_present = 0usize;
    let mut saw_last = false;
    for event in &step.events {
        if let verif::IoEvent::BufWrite { file, offset, bytes, .. } = event {
            if bytes.len() < 7 {
                continue;
            }
            let frame_type = bytes[6];
            if frames_present == 0 && frame_type != 2 {
                return None; // single-frame entry (Full), or not the own entry
            }
            let end = offset + bytes.len() as u64;
            let mark = watermark.get(file).copied().unwrap_or(0);
            if end <= mark {
                present += bytes.len() - 7;
                frames_present += 1;
                if frame_type == 4 {
                    saw_last = true;
                }
            } else if *offset < mark {
                return None; // torn frame
            } else {
                break;
            }
            if frame_type == 4 {
                break;
            }
        }
    }
    if frames_present == 0 || saw_last || present >= entry_len {
        return None;
    }
    let missing = entry_len - present;
    let overhead = 11 + qlen + 12;
    if missing < overhead || missing > 32_000 {
        return None;
    }
    Some((q, missing - overhead))
}

fn tear_offsets(bytes_len: usize, piece_bounds: &[usize], tears: Tears, state: &mut u64) -> Vec<usize> {
    let mut offsets = Vec::new();
    match tears {
        Tears::Boundaries => {}
        Tears::All => offsets.extend(1..bytes_len),
        Tears::Aimed => {
            // piece_bounds: start offsets of the pieces inside this OS write, plus its end
            for pair in piece_bounds.windows(2) {
                let (start, end) = (pair[0], pair[1]);
                let len = end - start;
                for delta in [0usize, 1, 6, 7, 8, len.saturating_sub(1)] {
                    if delta < len {
                        offsets.push(start + delta);
                    }
                }
                if len > 9 {
                    offsets.push(start + 9 + (splitmix(state) as usize) % (len - 9));
                }
            }
        }
    }
    offsets.retain(|offset| *offset > 0 && *offset < bytes_len);
    offsets.sort();
    offsets.dedup();
    offsets
}

/// Expands the recorded run into crash experiments; returns the trace lines to insert and counts.
pub fn expand(record: &RunRecord, opts: &CrashOpts) -> (Vec<CrashLine>, CrashStats) {
    let script = Arc::new(record.script.clone());
    let effects = os_effects(record, false);
    let mut stats = CrashStats::default();
    let mut state = opts.seed ^ 0xC0FFEE;
    // piece boundaries inside each OS write: from the BufWrite offsets
    let mut piece_starts: BTreeMap<(u64, u64), ()> = BTreeMap::new();
    let mut all_events: Vec<&verif::IoEvent> = record.open_events.iter().collect();
    for step in &record.steps {
        all_events.extend(step.events.iter());
    }
    for event in all_events {
        if let verif::IoEvent::BufWrite { file, offset, .. } = event {
            piece_starts.insert((*file, *offset), ());
        }
    }
    // enumerate crash points: (k, tear)
    let mut points: Vec<(usize, Option<usize>)> = Vec::new();
    for k in 0..=effects.len() {
        points.push((k, None));
        if k < effects.len() {
            if let OsEff::Write { file, off, bytes } = &effects[k].eff {
                let mut bounds: Vec<usize> = piece_starts
                    .range((*file, *off)..(*file, *off + bytes.len() as u64))
                    .map(|((_, start), _)| (*start - *off) as usize)
                    .collect();
                if bounds.first() != Some(&0) {
                    bounds.insert(0, 0);
                }
                bounds.push(bytes.len());
                for tear in tear_offsets(bytes.len(), &bounds, opts.tears, &mut state) {
                    points.push((k, Some(tear)));
                }
            }
        }
    }
    if opts.max_points > 0 && points.len() > opts.max_points {
        // keep all boundaries, thin the tears evenly
        let boundaries = points.iter().filter(|point| point.1.is_none()).count();
        let budget = opts.max_points.saturating_sub(boundaries).max(1);
        let tears_total = points.len() - boundaries;
        let mut kept = Vec::new();
        let mut seen = 0usize;
        for point in points {
            if point.1.is_none() {
                kept.push(point);
            } else {
                if (seen * budget) / tears_total != ((seen + 1) * budget) / tears_total {
                    kept.push(point);
                }
                seen += 1;
            }
        }
        points = kept;
    }
    // last step index that has executed (for boundary replication)
    let executed: Vec<usize> = record.steps.iter().map(|step| step.idx).collect();
    let mut image = Image::default();
    let mut applied = 0usize;
    let mut out_lines: Vec<CrashLine> = Vec::new();
    // grouping: (step, incall, model, variant, key) -> index in out_lines
    let mut groups: BTreeMap<(i64, bool, String, String), usize> = BTreeMap::new();
    for (k, tear) in points {
        while applied < k {
            image.apply(&effects[applied].eff, None);
            applied += 1;
        }
        stats.points += 1;
        if tear.is_some() {
            stats.torn_points += 1;
        }
        // which step(s) does this point belong to
        let prev_step = if k > 0 { Some(effects[k - 1].step) } else { None };
        let next_step = if k < effects.len() { Some(effects[k].step) } else { None };
        let mut placements: Vec<(usize, bool)> = Vec::new();
        if tear.is_some() {
            placements.push((next_step.unwrap(), true));
        } else if prev_step.is_some() && prev_step == next_step {
            placements.push((prev_step.unwrap(), true));
        } else {
            // boundary: belongs after every step s with prev_step <= s < next_step
            let lo = prev_step.map(step_order).unwrap_or(-1);
            let hi = next_step.map(step_order).unwrap_or(i64::MAX);
            if lo == -1 {
                placements.push((INIT_STEP, false));
            }
            for step in &executed {
                let order = step_order(*step);
                if order >= lo && order < hi && order >= 0 {
                    placements.push((*step, false));
                }
            }
            // a step that has effects both before and after this point but was interrupted by
            // nothing: handled above (prev == next). A boundary in front of a step's first effect
            // is also an in-call point of that step, with the same verdict: not replicated.
        }
        if placements.is_empty() {
            continue;
        }
        if placements.iter().any(|placement| placement.1) {
            stats.incall_points += 1;
        }
        let mut images: Vec<(String, String, BTreeMap<u64, FileImg>)> = Vec::new();
        if opts.process {
            let mut torn = image.clone();
            if let Some(tear) = tear {
                torn.apply(&effects[k].eff, Some(tear));
            }
            images.push(("process".to_string(), String::new(), torn.process_image()));
        }
        if opts.power && tear.is_none() {
            for (variant, files) in image.power_images() {
                images.push(("power".to_string(), variant, files));
            }
        }
        for (model, variant, files) in images {
            let seed = splitmix(&mut state);
            let hint = if opts.glue && opts.cont && model == "process" && tear.is_none() {
                glue_hint(record, &effects, k)
            } else {
                None
            };
            let recovery = match hint {
                Some(glue) => {
                    stats.glue_points += 1;
                    recover_glue(&script, &files, seed, opts.deadline, glue)
                }
                None => recover(&script, &files, opts.cont, seed, opts.deadline),
            };
            stats.opens += 1;
            if recovery.out != "ok" {
                stats.not_ok += 1;
            }
            if recovery.out == "timeout" {
                stats.timeouts += 1;
            }
            let mut key = group_key(&recovery);
            let orph = orphan_head(&files);
            key.push_str(&format!("|o{orph}"));
            let mut depth2_lines: Vec<(String, Recovery, i64)> = Vec::new();
            if opts.depth2 && recovery.out == "ok" && !recovery.effects.is_empty() && model == "process" {
                // crash the recovery itself at each boundary of its own effects
                let mut second = Image {
                    files: files.clone(),
                    ..Image::default()
                };
                for (idx, eff) in recovery.effects.iter().enumerate() {
                    second.apply(&eff.eff, None);
                    if idx + 1 == recovery.effects.len() {
                        break;
                    }
                    let seed2 = splitmix(&mut state);
                    let image2 = second.process_image();
                    let recovery2 = recover(&script, &image2, opts.cont, seed2, opts.deadline);
                    stats.opens += 1;
                    stats.depth2_points += 1;
                    depth2_lines.push((format!("{idx}"), recovery2, orphan_head(&image2)));
                }
            }
            for (label, recovery2, orph2) in &depth2_lines {
                key.push_str(&format!("#{label}:{}|o{orph2}", group_key(recovery2)));
            }
            let point_json = json!({"k": k, "tear": tear.map(|t| t as i64).unwrap_or(-1)});
            for (step, incall) in &placements {
                let group = (step_order(*step), *incall, format!("{model}/{variant}"), key.clone());
                if let Some(existing) = groups.get(&group) {
                    let line = &mut out_lines[*existing].lines[0];
                    line["n"] = json!(line["n"].as_i64().unwrap() + 1);
                    continue;
                }
                let mut lines = Vec::new();
                let mut crash_line = json!({
                    "ev": "crash", "i": step_order(*step), "incall": *incall as i64, "model": model,
                    "var": variant, "pt": point_json, "n": 1, "depth": 1, "out": recovery.out,
                    "errtext": recovery.errtext, "ncont": recovery.cont.len(), "io": recovery.io, "orph": orph,
                });
                if recovery.out == "ok" {
                    crash_line["st"] = recovery.st.clone();
                }
                lines.push(crash_line);
                lines.extend(recovery.cont.iter().cloned());
                if !recovery.cont.is_empty() {
                    lines.push(json!({"ev": "pop"}));
                }
                for (label, recovery2, orph2) in &depth2_lines {
                    let mut line2 = json!({
                        "ev": "crash", "i": step_order(*step), "incall": *incall as i64, "model": model,
                        "var": format!("{variant}+rec{label}"), "pt": point_json, "n": 1, "depth": 2,
                        "out": recovery2.out, "errtext": recovery2.errtext, "ncont": recovery2.cont.len(),
                        "io": recovery2.io, "orph": *orph2,
                    });
                    if recovery2.out == "ok" {
                        line2["st"] = recovery2.st.clone();
                    }
                    lines.push(line2);
                    lines.extend(recovery2.cont.iter().cloned());
                    if !recovery2.cont.is_empty() {
                        lines.push(json!({"ev": "pop"}));
                    }
                }
                groups.insert(group, out_lines.len());
                out_lines.push(CrashLine {
                    step: *step,
                    incall: *incall,
                    lines,
                });
            }
            if recovery.out == "timeout" {
                // a spinning open keeps a core busy: stop expanding this run
                stats.groups = out_lines.len();
                return (out_lines, stats);
            }
        }
    }
    stats.groups = out_lines.len();
    (out_lines, stats)
}

/// Assembles the trace of one run: run line, initial open, steps with the crash lines inserted.
pub fn assemble(record: &RunRecord, crash_lines: Vec<CrashLine>) -> Vec<Value> {
    let mut lines = Vec::new();
    lines.push(record.run_line.clone());
    let open_ok = record.open_state.get("err").is_none();
    let mut init = json!({"ev": "init", "out": if open_ok { "ok" } else { "err" }, "io": io_json(&record.open_events)});
    if open_ok {
        init["st"] = record.open_state.clone();
    }
    lines.push(init);
    let mut by_place: BTreeMap<(i64, bool), Vec<Vec<Value>>> = BTreeMap::new();
    for crash_line in crash_lines {
        by_place
            .entry((step_order(crash_line.step), crash_line.incall))
            .or_default()
            .push(crash_line.lines);
    }
    if let Some(groups) = by_place.remove(&(-1, false)) {
        for group in groups {
            lines.extend(group);
        }
    }
    // in-call points of the initial open are judged like boundary points of an empty log
    if let Some(groups) = by_place.remove(&(-1, true)) {
        for group in groups {
            lines.extend(group);
        }
    }
    for step in &record.steps {
        lines.push(step.begin.clone());
        if let Some(groups) = by_place.remove(&(step.idx as i64, true)) {
            for group in groups {
                lines.extend(group);
            }
        }
        lines.push(step.end.clone());
        if let Some(groups) = by_place.remove(&(step.idx as i64, false)) {
            for group in groups {
                lines.extend(group);
            }
        }
    }
    if let Some(expect) = &record.script.expect {
        if !record.aborted {
            let mut line = expect.clone();
            line["ev"] = json!("expect");
            lines.push(line);
        }
    }
    lines
}
