//! I/O fault injection during recovery (C11): for a closed image, every read-side call made by
//! `open` (directory listing, file opens, block reads, the writer's seek) is made to fail, once or
//! persistently, with several error kinds; `open` must terminate promptly with an I/O error.
use std::collections::BTreeMap;
use std::path::PathBuf;
use std::sync::Arc;
use std::time::Duration;

use mrecordlog::verif::{self, FaultPlan, FaultSite};
use serde_json::{json, Value};

use crate::crash::{assemble, os_effects, with_deadline};
use crate::disk::{FileImg, Image, OsEff};
use crate::exec::{open_log, run_script, TempDir};
use crate::{load_scripts, parallel, write_lines, Args, Output};

const BLOCK: usize = 32_768;

const SITES: [(FaultSite, &str); 4] = [
    (FaultSite::ListDir, "list"),
    (FaultSite::OpenFile, "open"),
    (FaultSite::ReadBlock, "read"),
    (FaultSite::Seek, "seek"),
];

/// (UnexpectedEof is used at every site but `read`: from a block read it IS the end-of-file
/// signal of `read_exact`, not a failure; from a listing, an open or a seek it is a failure like
/// any other)
const KINDS: [(std::io::ErrorKind, &str); 7] = [
    (std::io::ErrorKind::UnexpectedEof, "UnexpectedEof"),
    (std::io::ErrorKind::AlreadyExists, "AlreadyExists"),
    (std::io::ErrorKind::NotFound, "NotFound"),
    (std::io::ErrorKind::PermissionDenied, "PermissionDenied"),
    (std::io::ErrorKind::Other, "Other"),
    (std::io::ErrorKind::Interrupted, "Interrupted"),
    (std::io::ErrorKind::TimedOut, "TimedOut"),
];

struct Outcome {
    out: String,
    errkind: String,
    struck: usize,
    counts: [usize; 4],
    queues: i64,
}

fn open_with_plan(
    policy: &str,
    files: &BTreeMap<u64, FileImg>,
    plan: Option<FaultPlan>,
    deadline: Duration,
) -> Outcome {
    let first = open_with_plan_once(policy, files, plan.clone(), deadline);
    if first.out != "timeout" {
        return first;
    }
    // (confirmed with a much longer deadline: machine load is not a verdict)
    open_with_plan_once(policy, files, plan, crate::crash::confirm_deadline(deadline))
}

fn open_with_plan_once(
    policy: &str,
    files: &BTreeMap<u64, FileImg>,
    plan: Option<FaultPlan>,
    deadline: Duration,
) -> Outcome {
    let files_in = files.clone();
    let policy_in = policy.to_string();
    let result = with_deadline(deadline, move || {
        let dir = TempDir::new();
        Image::materialize(&files_in, &dir.path);
        verif::stop_recording();
        verif::set_fault_plan(plan);
        let opened = open_log(&dir.path, &policy_in);
        let (counts, struck) = verif::fault_counters();
        verif::set_fault_plan(None);
        match opened {
            Ok(log) => Outcome {
                out: "ok".to_string(),
                errkind: String::new(),
                struck,
                counts,
                queues: log.list_queues().count() as i64,
            },
            Err(err) => Outcome {
                out: if err == "panic" { "panic".to_string() } else { "err".to_string() },
                errkind: if err.starts_with("io:") {
                    "io".to_string()
                } else if err == "corruption" {
                    "corruption".to_string()
                } else {
                    String::new()
                },
                struck,
                counts,
                queues: -1,
            },
        }
    });
    result.unwrap_or(Outcome {
        out: "timeout".to_string(),
        errkind: String::new(),
        struck: 1,
        counts: [0; 4],
        queues: -1,
    })
}

pub fn cmd(args: &Args) {
    let scripts = Arc::new(load_scripts(args));
    let out_dir = PathBuf::from(args.get("out", "/dev/shm/mrl-out"));
    let output = Arc::new(Output::new(&out_dir));
    let deadline = Duration::from_secs(args.num("deadline", 10));
    let all_kinds = args.flag("all-kinds");
    let gc_images = args.flag("gc-images");
    let max_gc_images = args.num("max-gc-images", 6) as usize;
    let damaged_images = args.flag("damaged-images");
    let max_damaged_images = args.num("max-damaged-images", 3) as usize;
    let n = scripts.len();
    let output_in = output.clone();
    parallel(n, args.num("jobs", 8) as usize, &out_dir, "trace", move |job, file| {
        let script = &scripts[job];
        std::fs::write(
            output_in.dir.join("scripts").join(format!("{}.json", script.name)),
            serde_json::to_vec(script).unwrap(),
        )
        .unwrap();
        let (record, mut runner) = run_script(script, job);
        drop(runner.log.take());
        let image = Image::from_dir(&runner.dir.path);
        drop(runner);
        output_in.add("runs", 1);
        output_in.add("calls", record.steps.len() as u64);
        let mut lines = assemble(&record, Vec::new());
        if record.aborted {
            write_lines(file, &lines);
            return;
        }
        // images: the closed directory at the end of the history, plus (--gc-images) the process-
        // crash images taken right before each unlink of a GC pass: recovery on these runs a GC
        // pass of its own (position entries, possibly a
        // roll-over into a file it has to create or open, unlinks)
        let mut images: Vec<(String, BTreeMap<u64, FileImg>)> = vec![("closed".to_string(), image.files.clone())];
        if job % 8 == 0 {
            // a directory without any WAL file: open lists it, creates and sizes the first file
            images.push(("empty".to_string(), BTreeMap::new()));
        }
        if damaged_images {
            // images with a block the reader gives up on (an invalid frame type at the block's first
            // header): the reader then loads the NEXT block while "skipping a corrupted block" - a
            // separate path from the ordinary end-of-block one - and a failure of that load (a read,
            // or the open of the next file when the block closes its file) must be reported too
            let numbers: Vec<u64> = image.files.keys().copied().collect();
            let mut targets: Vec<(u64, usize)> = Vec::new();
            for (idx, number) in numbers.iter().enumerate() {
                let blocks = image.files[number].data.len() / BLOCK;
                if blocks == 0 {
                    continue;
                }
                // the last block of a file that has a successor; the first and a middle block
                if idx + 1 < numbers.len() {
                    targets.push((*number, blocks - 1));
                }
                targets.push((*number, 0));
                if blocks > 2 {
                    targets.push((*number, blocks / 2));
                }
            }
            targets.dedup();
            let start = job % targets.len().max(1);
            for pick in 0..targets.len().min(max_damaged_images) {
                let (number, block) = targets[(start + pick * 2) % targets.len()];
                let mut files = image.files.clone();
                let data = &mut files.get_mut(&number).unwrap().data;
                if data.len() < block * BLOCK + 7 {
                    continue;
                }
                data[block * BLOCK + 6] = 0xff;
                images.push((format!("badblock@{number}.{block}"), files));
            }
        }
        if gc_images {
            let effects = os_effects(&record, false);
            let mut partial = Image::default();
            let mut taken = 0;
            for (k, tagged) in effects.iter().enumerate() {
                if let OsEff::Unlink(_) = tagged.eff {
                    if taken < max_gc_images {
                        images.push((format!("pre-unlink@{k}"), partial.process_image()));
                        taken += 1;
                    }
                }
                partial.apply(&tagged.eff, None);
            }
        }
        let mut cases: Vec<Value> = Vec::new();
        let mut stop = false;
        for (image_name, image_files) in &images {
        let image = Image { files: image_files.clone(), ..Image::default() };
        // fault-free run: how many calls does recovery make at each site
        let baseline = open_with_plan(&script.policy, &image.files, None, deadline);
        if baseline.out != "ok" {
            // (a crash image the library itself refuses: judged by C02/C10, not here)
            continue;
        }
        output_in.add("images", 1);
        if image_name.starts_with("pre-unlink") {
            output_in.add("gc_crash_images", 1);
        }
        if image_name.starts_with("badblock") {
            output_in.add("damaged_images", 1);
        }
        output_in.add("image_files", image.files.len() as u64);
        for (site_idx, (site, site_name)) in SITES.iter().enumerate() {
            // crash images: the write-side sites only matter once (list / read faults are the
            // closed image's business), but open-or-create calls are enumerated in full
            if image_name.starts_with("pre-unlink") && *site_name != "open" {
                continue;
            }
            if image_name.starts_with("badblock") && *site_name != "open" && *site_name != "read" {
                continue;
            }
            for k in 0..baseline.counts[site_idx] {
                for forever in [false, true] {
                    let usable: Vec<&(std::io::ErrorKind, &str)> = KINDS
                        .iter()
                        .filter(|(kind, _)| *site_name != "read" || *kind != std::io::ErrorKind::UnexpectedEof)
                        .collect();
                    let kinds: Vec<&(std::io::ErrorKind, &str)> = if all_kinds || image_name == "empty" {
                        usable
                    } else {
                        // two kinds per call in the quick tier, rotating; NotFound at every open besides
                        // (the natural failure of an open: a file that vanished since the listing)
                        let first = (k + site_idx + forever as usize) % usable.len();
                        let mut picked = vec![usable[first], usable[(first + 2) % usable.len()]];
                        if *site_name == "open" {
                            if let Some(not_found) = usable.iter().find(|(kind, _)| *kind == std::io::ErrorKind::NotFound) {
                                if !picked.iter().any(|(kind, _)| *kind == std::io::ErrorKind::NotFound) {
                                    picked.push(*not_found);
                                }
                            }
                        }
                        picked
                    };
                    for (kind, kind_name) in kinds {
                        if stop {
                            continue;
                        }
                        let plan = FaultPlan {
                            site: *site,
                            k,
                            forever,
                            kind: *kind,
                        };
                        let outcome = open_with_plan(&script.policy, &image.files, Some(plan), deadline);
                        output_in.add("fault_cases", 1);
                        output_in.add(&format!("fault_site_{site_name}"), 1);
                        if outcome.struck > 0 {
                            output_in.add("fault_struck", 1);
                        }
                        if outcome.out == "timeout" {
                            stop = true;
                        }
                        cases.push(json!({
                            "ev": "fault", "site": site_name, "k": k, "forever": forever as i64,
                            "kind": kind_name, "struck": outcome.struck, "out": outcome.out,
                            "errkind": outcome.errkind, "queues": outcome.queues,
                            "base": baseline.counts.to_vec(), "files": image.files.len(), "image": image_name,
                        }));
                    }
                }
            }
        }
        }
        if job % 4 == 0 && !stop {
            // natural failures of the directory listing (no injection): the WAL directory is not
            // there (unmounted volume, moved directory), or the path is a regular file; open must
            // report an I/O error and must not create anything in its place
            for what in ["missing", "regular-file"] {
                let holder = TempDir::new();
                let path = holder.path.join("wal-dir");
                if what == "regular-file" {
                    std::fs::write(&path, b"not a directory").unwrap();
                }
                verif::stop_recording();
                verif::set_fault_plan(None);
                let opened = open_log(&path, &script.policy);
                let created = what == "missing" && path.exists();
                let (out, errkind) = match opened {
                    Ok(_) => ("ok".to_string(), String::new()),
                    Err(err) if err.starts_with("io:") && !created => ("err".to_string(), "io".to_string()),
                    Err(err) if err == "panic" => ("panic".to_string(), String::new()),
                    Err(_) => ("err".to_string(), if created { "created".to_string() } else { String::new() }),
                };
                output_in.add("fault_cases", 1);
                output_in.add("fault_natural", 1);
                output_in.add("fault_struck", 1);
                cases.push(json!({
                    "ev": "fault", "site": "list", "k": 0, "forever": 1, "kind": format!("real-{what}"), "struck": 1,
                    "out": out, "errkind": errkind, "queues": -1, "base": [0, 0, 0, 0], "files": 0, "image": what,
                }));
            }
        }
        output_in.sample(json!({"script": script.name, "files": image.files.len(), "images": images.len(),
            "cases": cases.len(),
            "first": cases.first()}));
        lines.extend(cases);
        output_in.add("trace_lines", lines.len() as u64);
        write_lines(file, &lines);
    });
    output.finish(json!({"cmd": "fault"}));
    crate::exec::cleanup_scratch();
}
