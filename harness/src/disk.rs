//! From recorded I/O events to OS-level effects and directory images at crash points.
//!
//! Faithfulness argument (DESIGN 3.4): within one incarnation the writer only appends to the byte
//! stream, files are pre-sized with zeros, and every effect goes through the hooked layer. The
//! `BufWriter` between the writer and the OS is reconstructed exactly from the `buffered_after`
//! field of each `BufWrite` event.
use std::collections::BTreeMap;
use std::path::Path;

use mrecordlog::verif::IoEvent;

#[derive(Debug, Clone, PartialEq)]
pub enum OsEff {
    Create(u64),
    SetLen(u64, u64),
    Unlink(u64),
    /// bytes handed to the OS by one (logical) write syscall
    Write { file: u64, off: u64, bytes: Vec<u8> },
    Fsync(u64),
    DirSync,
}

/// One OS-level effect with the index of the script step during which it happened
/// (`usize::MAX` for the initial open).
#[derive(Debug, Clone)]
pub struct TaggedEff {
    pub eff: OsEff,
    pub step: usize,
}

/// Reconstructs the `BufWriter`: turns BufWrite/Flush events into OS-level writes.
#[derive(Default)]
pub struct BufModel {
    file: u64,
    start: u64,
    pending: Vec<u8>,
}

impl BufModel {
    pub fn pending_len(&self) -> usize {
        self.pending.len()
    }

    /// What a drop of the log does: BufWriter's destructor flushes.
    pub fn drop_flush(&mut self, step: usize, out: &mut Vec<TaggedEff>) {
        self.flush(step, out);
    }

    fn flush(&mut self, step: usize, out: &mut Vec<TaggedEff>) {
        if !self.pending.is_empty() {
            out.push(TaggedEff {
                eff: OsEff::Write {
                    file: self.file,
                    off: self.start,
                    bytes: std::mem::take(&mut self.pending),
                },
                step,
            });
        }
    }

    /// A process crash loses whatever is still buffered.
    pub fn lose(&mut self) {
        self.pending.clear();
    }

    pub fn feed(&mut self, event: &IoEvent, step: usize, out: &mut Vec<TaggedEff>) {
        match event {
            IoEvent::Create { file } => out.push(TaggedEff {
                eff: OsEff::Create(*file),
                step,
            }),
            IoEvent::SetLen { file, len } => out.push(TaggedEff {
                eff: OsEff::SetLen(*file, *len),
                step,
            }),
            IoEvent::Unlink { file } => out.push(TaggedEff {
                eff: OsEff::Unlink(*file),
                step,
            }),
            IoEvent::Fdatasync { file } => out.push(TaggedEff {
                eff: OsEff::Fsync(*file),
                step,
            }),
            IoEvent::DirSync => out.push(TaggedEff {
                eff: OsEff::DirSync,
                step,
            }),
            IoEvent::Flush { .. } => self.flush(step, out),
            IoEvent::BufWrite {
                file,
                offset,
                bytes,
                buffered_after,
            } => {
                if !self.pending.is_empty() && self.file != *file {
                    // the writer replaced its BufWriter without flushing it first: dropping a
                    // BufWriter hands its buffer to the OS (std flushes on drop, silently)
                    self.flush(step, out);
                }
                if self.pending.is_empty() {
                    self.file = *file;
                    self.start = *offset;
                } else {
                    assert_eq!(self.start + self.pending.len() as u64, *offset);
                }
                self.pending.extend_from_slice(bytes);
                assert!(*buffered_after <= self.pending.len());
                let flushed = self.pending.len() - buffered_after;
                if flushed > 0 {
                    let rest = self.pending.split_off(flushed);
                    let written = std::mem::replace(&mut self.pending, rest);
                    out.push(TaggedEff {
                        eff: OsEff::Write {
                            file: self.file,
                            off: self.start,
                            bytes: written,
                        },
                        step,
                    });
                    self.start += flushed as u64;
                }
            }
            IoEvent::ListDir { .. }
            | IoEvent::Open { .. }
            | IoEvent::ReadBlock { .. }
            | IoEvent::Seek { .. } => {}
        }
    }
}

#[derive(Debug, Clone, Default, PartialEq)]
pub struct FileImg {
    pub data: Vec<u8>,
}

/// Directory image as the OS sees it, plus what is durable (power-loss model).
#[derive(Debug, Clone, Default)]
pub struct Image {
    pub files: BTreeMap<u64, FileImg>,
    /// content of each file as of its last fdatasync (absent: never synced)
    pub synced: BTreeMap<u64, FileImg>,
    /// names present as of the last directory fsync
    pub durable_names: BTreeMap<u64, ()>,
    /// creations / unlinks since the last directory fsync, in order: (created?, file)
    pub pending_meta: Vec<(bool, u64)>,
}

impl Image {
    pub fn from_dir(dir: &Path) -> Image {
        let mut image = Image::default();
        for number in crate::exec::wal_files_in(dir) {
            let data = std::fs::read(dir.join(format!("wal-{number:020}"))).unwrap();
            image.files.insert(number, FileImg { data: data.clone() });
            image.synced.insert(number, FileImg { data });
            image.durable_names.insert(number, ());
        }
        image
    }

    /// Applies the first `tear` bytes only of a write (`None`: the whole effect).
    pub fn apply(&mut self, eff: &OsEff, tear: Option<usize>) {
        match eff {
            OsEff::Create(file) => {
                self.files.insert(*file, FileImg::default());
                self.pending_meta.push((true, *file));
            }
            OsEff::SetLen(file, len) => {
                if let Some(img) = self.files.get_mut(file) {
                    img.data.resize(*len as usize, 0);
                }
            }
            OsEff::Unlink(file) => {
                self.files.remove(file);
                self.pending_meta.push((false, *file));
            }
            OsEff::Write { file, off, bytes } => {
                let count = tear.unwrap_or(bytes.len()).min(bytes.len());
                if let Some(img) = self.files.get_mut(file) {
                    let end = *off as usize + count;
                    if img.data.len() < end {
                        img.data.resize(end, 0);
                    }
                    img.data[*off as usize..end].copy_from_slice(&bytes[..count]);
                }
            }
            OsEff::Fsync(file) => {
                if let Some(img) = self.files.get(file) {
                    self.synced.insert(*file, img.clone());
                }
            }
            OsEff::DirSync => {
                self.durable_names = self.files.keys().map(|file| (*file, ())).collect();
                self.pending_meta.clear();
                let names = self.durable_names.clone();
                self.synced.retain(|file, _| names.contains_key(file));
            }
        }
    }

    pub fn materialize(files: &BTreeMap<u64, FileImg>, dir: &Path) {
        for (number, img) in files {
            std::fs::write(dir.join(format!("wal-{number:020}")), &img.data).unwrap();
        }
    }

    /// Process-crash image: exactly what the OS has.
    pub fn process_image(&self) -> BTreeMap<u64, FileImg> {
        self.files.clone()
    }

    /// Power-loss images. File content: as of the file's last fdatasync; a file never synced is
    /// zero-filled at its current length (variant 0/1) or empty (variant 2). Directory: names as
    /// of the last directory fsync, with the creations / unlinks made since either all durable
    /// (variants 0, 2), none durable (variant 1), or only a prefix of them durable (variant 3+k:
    /// the first k metadata operations; journalled in order).
    pub fn power_images(&self) -> Vec<(String, BTreeMap<u64, FileImg>)> {
        let mut variants: Vec<(String, Vec<u64>, bool)> = Vec::new();
        let all_now: Vec<u64> = self.files.keys().copied().collect();
        variants.push(("meta_all".to_string(), all_now.clone(), false));
        if !self.pending_meta.is_empty() {
            for k in 0..self.pending_meta.len() {
                let mut names: BTreeMap<u64, ()> = self.durable_names.clone();
                for (created, file) in &self.pending_meta[..k] {
                    if *created {
                        names.insert(*file, ());
                    } else {
                        names.remove(file);
                    }
                }
                let label = if k == 0 {
                    "meta_none".to_string()
                } else {
                    format!("meta_prefix{k}")
                };
                variants.push((label, names.keys().copied().collect(), false));
            }
        }
        let has_unsynced = all_now.iter().any(|file| !self.synced.contains_key(file));
        if has_unsynced {
            variants.push(("meta_all_len0".to_string(), all_now, true));
        }
        let mut out = Vec::new();
        for (label, names, len0) in variants {
            let mut files = BTreeMap::new();
            for file in names {
                if let Some(img) = self.synced.get(&file) {
                    files.insert(file, img.clone());
                } else if let Some(img) = self.files.get(&file) {
                    let len = if len0 { 0 } else { img.data.len() };
                    files.insert(file, FileImg { data: vec![0u8; len] });
                } else {
                    // un-durable unlink of a file never synced: nothing to resurrect
                }
            }
            out.push((label, files));
        }
        out
    }
}

/// A frame or padding as written, for aiming tears and damage.
#[derive(Debug, Clone)]
pub struct Piece {
    pub file: u64,
    pub off: u64,
    pub len: usize,
    pub step: usize,
    /// 0 for padding, else the frame type byte
    pub frame_type: u8,
    /// ordinal of the WAL entry (over the whole run) this frame belongs to; padding: the entry
    /// it precedes
    pub entry: usize,
}

/// Frame table of a run, from its BufWrite events.
pub fn frame_table(steps: &[(usize, &[IoEvent])]) -> Vec<Piece> {
    let mut pieces = Vec::new();
    let mut entry = 0usize;
    for (step, events) in steps {
        for event in events.iter() {
            if let IoEvent::BufWrite {
                file, offset, bytes, ..
            } = event
            {
                let frame_type = if bytes.len() >= 7 { bytes[6] } else { 0 };
                if frame_type == 1 || frame_type == 2 {
                    entry += 1;
                }
                let owner = if frame_type == 0 { entry + 1 } else { entry };
                pieces.push(Piece {
                    file: *file,
                    off: *offset,
                    len: bytes.len(),
                    step: *step,
                    frame_type,
                    entry: owner,
                });
            }
        }
    }
    pieces
}
