//! C17: which directory entries are treated as WAL files, and what the library creates / removes.
//!
//! (a) `name` lines: a directory holding one valid (empty) WAL file plus ONE foreign entry whose
//!     name is a near miss of a WAL file name, as a regular file, a directory or a symlink to a
//!     valid WAL file; `open` + a few calls + a clean restart; was the entry listed as a WAL file,
//!     was it left untouched.
//! (b) `dirhist` lines: ordinary histories with roll-over and GC run in a directory pre-populated
//!     with WAL files numbered with gaps (3, 7, 8) and foreign entries; which numbers were opened,
//!     created, unlinked, in which order blocks were read, what the directory holds at the end.
use std::collections::BTreeMap;
use std::os::unix::ffi::OsStrExt;
use std::path::{Path, PathBuf};
use std::sync::Arc;

use mrecordlog::verif::{self, IoEvent};
use serde_json::{json, Value};

use crate::crash::{materialize_extras, Extra};
use crate::exec::{run_script_in, TempDir};
use crate::script::{Payload, Script, Step};
use crate::{load_scripts, parallel, write_lines, Args, Output};

const FILE_BYTES: usize = 4 * 32_768;
const VALID: &[u8] = b"wal-00000000000000000007";

fn near_miss_names() -> Vec<Vec<u8>> {
    let mut names: Vec<Vec<u8>> = Vec::new();
    let base = b"wal-00000000000000000009".to_vec();
    // single edits at every position
    for pos in 0..base.len() {
        for replacement in [b'5', b'x', b'-', b' ', b'+', b'W', b'.', 0x7f] {
            if base[pos] != replacement {
                let mut name = base.clone();
                name[pos] = replacement;
                names.push(name);
            }
        }
        // a non-ASCII digit (ARABIC-INDIC DIGIT THREE, 2 bytes) in place of one byte
        let mut name = base.clone();
        name.splice(pos..pos + 1, [0xd9, 0xa3]);
        names.push(name);
        // full-width digit (3 bytes)
        let mut name = base.clone();
        name.splice(pos..pos + 1, [0xef, 0xbc, 0x95]);
        names.push(name);
        // deletion, insertion
        let mut name = base.clone();
        name.remove(pos);
        names.push(name);
        let mut name = base.clone();
        name.insert(pos, b'1');
        names.push(name);
        // invalid UTF-8
        let mut name = base.clone();
        name[pos] = 0xff;
        names.push(name);
    }
    // exactly 24 BYTES but not 24 characters: a 2-, 3- or 4-byte character straddling every
    // byte offset (slicing such a name at a fixed byte offset is not on a character boundary)
    for name in straddling_names() {
        names.push(name);
    }
    // lengths: "wal-" + k digits, k = 0..=23
    for k in 0..=23 {
        let mut name = b"wal-".to_vec();
        name.extend(std::iter::repeat(b'1').take(k));
        names.push(name);
    }
    // the u64 boundary
    names.push(b"wal-18446744073709551615".to_vec());
    names.push(b"wal-18446744073709551616".to_vec());
    names.push(b"wal-18446744073709551614".to_vec());
    names.push(b"wal-99999999999999999999".to_vec());
    names.push(b"wal-09223372036854775808".to_vec());
    // valid names
    names.push(b"wal-00000000000000000009".to_vec());
    names.push(b"wal-00000000004294967296".to_vec());
    names.push(b"WAL-00000000000000000009".to_vec());
    names.push(b"wal_00000000000000000009".to_vec());
    names.push(b"wal-0000000000000000000a".to_vec());
    names.push(b"wal-00000000000000000009.tmp".to_vec());
    names.push(b".wal-00000000000000000009".to_vec());
    names.push(b"wal-".to_vec());
    names.push(b"w".to_vec());
    names.sort();
    names.dedup();
    names.retain(|name| !name.is_empty() && name.as_slice() != VALID && !name.contains(&b'/') && !name.contains(&0));
    names
}

/// Names of exactly 24 bytes in which one multi-byte character replaces 2, 3 or 4 bytes of a
/// valid name at every position.
pub fn straddling_names() -> Vec<Vec<u8>> {
    let base = b"wal-00000000000000000009".to_vec();
    let mut names = Vec::new();
    let chars: [&[u8]; 3] = ["\u{e9}".as_bytes(), "\u{20ac}".as_bytes(), "\u{1f4be}".as_bytes()];
    for ch in chars {
        for pos in 0..=base.len() - ch.len() {
            let mut name = base.clone();
            name.splice(pos..pos + ch.len(), ch.iter().copied());
            assert_eq!(name.len(), 24);
            names.push(name);
        }
    }
    names
}

fn entry_fingerprint(path: &Path) -> String {
    match std::fs::symlink_metadata(path) {
        Err(_) => "absent".to_string(),
        Ok(meta) => {
            if meta.file_type().is_symlink() {
                format!("link:{:?}", std::fs::read_link(path).ok())
            } else if meta.is_dir() {
                let count = std::fs::read_dir(path).map(|iter| iter.count()).unwrap_or(0);
                format!("dir:{count}")
            } else {
                let content = std::fs::read(path).unwrap_or_default();
                format!("file:{}:{}", content.len(), crate::script::digest(&content))
            }
        }
    }
}

fn small_script(name: &str) -> Script {
    Script {
        name: name.to_string(),
        policy: "always_flush".to_string(),
        queues: vec!["q".to_string()],
        anchors: crate::gen::anchors(),
        steps: vec![
            Step::Create { q: 0 },
            Step::Append {
                q: 0,
                pos: None,
                batch: vec![Payload { seed: 1, len: 100_000, embed: None }, Payload { seed: 2, len: 100_000, embed: None }],
            },
            Step::Truncate { q: 0, p: 1 },
            Step::Restart,
            Step::Append { q: 0, pos: None, batch: vec![Payload { seed: 3, len: 10, embed: None }] },
        ],
        expect: None,
    }
}

fn io_numbers(events: &[IoEvent]) -> (Vec<u64>, Vec<u64>, Vec<u64>, Vec<Vec<u64>>, Vec<u64>) {
    let (mut opened, mut created, mut unlinked, mut listed, mut read) = (vec![], vec![], vec![], vec![], vec![]);
    for event in events {
        match event {
            IoEvent::Open { file } => opened.push(*file),
            IoEvent::Create { file } => created.push(*file),
            IoEvent::Unlink { file } => unlinked.push(*file),
            IoEvent::ListDir { files } => {
                let mut sorted = files.clone();
                sorted.sort();
                listed.push(sorted)
            }
            IoEvent::ReadBlock { file, .. } => read.push(*file),
            _ => {}
        }
    }
    (opened, created, unlinked, listed, read)
}

fn dir_names(path: &Path) -> Vec<Vec<u8>> {
    let mut names: Vec<Vec<u8>> = std::fs::read_dir(path)
        .map(|iter| iter.flatten().map(|entry| entry.file_name().as_bytes().to_vec()).collect())
        .unwrap_or_default();
    names.sort();
    names
}

fn bytes_json(name: &[u8]) -> Vec<i64> {
    name.iter().map(|byte| *byte as i64).collect()
}

/// u64 numbers do not fit TLC's integers: log them as decimal digit sequences
fn digits(number: u64) -> Vec<i64> {
    format!("{number:020}").bytes().map(|byte| (byte - b'0') as i64).collect()
}

pub fn cmd(args: &Args) {
    let out_dir = PathBuf::from(args.get("out", "/dev/shm/mrl-out"));
    let output = Arc::new(Output::new(&out_dir));
    let names = Arc::new(near_miss_names());
    let kinds = ["file", "dir", "symlink"];
    let n_name_jobs = names.len() * kinds.len();
    let scripts = Arc::new(load_scripts(args));
    let n_jobs = n_name_jobs + scripts.len();
    let output_in = output.clone();
    parallel(n_jobs, args.num("jobs", 8) as usize, &out_dir, "trace", move |job, file| {
        if job < n_name_jobs {
            // ---- (a) one foreign entry next to a valid WAL file
            let name = &names[job / kinds.len()];
            let kind = kinds[job % kinds.len()];
            let dir = TempDir::new();
            std::fs::write(dir.path.join(std::ffi::OsStr::from_bytes(VALID)), vec![0u8; FILE_BYTES]).unwrap();
            let target = dir.path.join(std::ffi::OsStr::from_bytes(name));
            let extra = match kind {
                "file" => Extra::File { name: name.clone(), content: b"foreign content".to_vec() },
                "dir" => Extra::Dir { name: name.clone() },
                _ => Extra::Symlink { name: name.clone(), target: VALID.to_vec() },
            };
            materialize_extras(&[extra], &dir.path);
            let before = entry_fingerprint(&target);
            let valid_before = entry_fingerprint(&dir.path.join(std::ffi::OsStr::from_bytes(VALID)));
            let script = small_script(&format!("name-{job}"));
            let (record, runner) = run_script_in(&script, job, dir, &BTreeMap::new());
            let mut events: Vec<IoEvent> = record.open_events.clone();
            for step in &record.steps {
                events.extend(step.events.iter().cloned());
            }
            drop(runner.log);
            let (opened, created, unlinked, listed, _read) = io_numbers(&events);
            let after = entry_fingerprint(&target);
            // accepted: the first listing saw more than the one valid file
            let accepted = listed.first().map(|files| files.len() > 1).unwrap_or(false);
            let _ = valid_before;
            let line = json!({
                "ev": "name", "bytes": bytes_json(name), "kind": kind, "accepted": accepted as i64,
                "untouched": (before == after) as i64,
                "aborted": record.aborted as i64,
                "nlisted": listed.first().map(|files| files.len()).unwrap_or(0),
                "nopened": opened.len(), "ncreated": created.len(), "nunlinked": unlinked.len(),
            });
            output_in.add("name_cases", 1);
            if accepted {
                output_in.add("name_accepted", 1);
            }
            output_in.sample(json!({"name_bytes": String::from_utf8_lossy(name), "kind": kind, "accepted": accepted}));
            // a self-contained trace: run line + the name line
            let mut run_line = record.run_line.clone();
            run_line["script"] = json!(format!("name-{job}"));
            write_lines(file, &[run_line, line]);
            drop(runner.dir);
        } else {
            // ---- (b) a history in a directory with numbering gaps and foreign entries
            let script = &scripts[job - n_name_jobs];
            std::fs::write(
                output_in.dir.join("scripts").join(format!("{}.json", script.name)),
                serde_json::to_vec(script).unwrap(),
            )
            .unwrap();
            let dir = TempDir::new();
            let initial = [3u64, 7, 8];
            for number in initial {
                std::fs::write(dir.path.join(format!("wal-{number:020}")), vec![0u8; FILE_BYTES]).unwrap();
            }
            let foreign: Vec<Extra> = vec![
                Extra::File { name: b"wal-0000000000000000001".to_vec(), content: b"short name".to_vec() },
                Extra::File { name: b"wal-000000000000000000010".to_vec(), content: b"long name".to_vec() },
                Extra::File { name: b"wal-0000000000000000000x".to_vec(), content: vec![7u8; 40_000] },
                Extra::File { name: b"notes.txt".to_vec(), content: b"hello".to_vec() },
                Extra::Dir { name: b"wal-00000000000000000005".to_vec() },
                Extra::Symlink { name: b"wal-00000000000000000006".to_vec(), target: b"wal-00000000000000000003".to_vec() },
                Extra::File { name: vec![b'w', b'a', b'l', b'-', 0xff], content: vec![1, 2, 3] },
            ];
            // every other history: the number the next created WAL file will get (9) is taken by a
            // symlink, to an existing foreign file or dangling - the library must neither follow it
            // nor create its target (an I/O error from the call is fine)
            let mut foreign = foreign;
            match job % 4 {
                3 => {
                    // (a symlink to an EMPTY foreign file - a lock or marker file: it looks like the
                    // leftover of an interrupted file creation to anything that follows the link)
                    foreign.push(Extra::File { name: b"lock".to_vec(), content: Vec::new() });
                    foreign.push(Extra::Symlink { name: b"wal-00000000000000000009".to_vec(), target: b"lock".to_vec() });
                }
                1 => {
                    foreign.push(Extra::File { name: b"archive.bin".to_vec(), content: vec![9u8; 200_000] });
                    foreign.push(Extra::Symlink { name: b"wal-00000000000000000009".to_vec(), target: b"archive.bin".to_vec() });
                }
                2 => {
                    foreign.push(Extra::Symlink { name: b"wal-00000000000000000009".to_vec(), target: b"notes2.txt".to_vec() });
                }
                _ => {}
            }
            materialize_extras(&foreign, &dir.path);
            let foreign_names: Vec<Vec<u8>> = foreign
                .iter()
                .map(|extra| match extra {
                    Extra::File { name, .. } | Extra::Dir { name } | Extra::Symlink { name, .. } => name.clone(),
                })
                .collect();
            let before: Vec<String> = foreign_names
                .iter()
                .map(|name| entry_fingerprint(&dir.path.join(std::ffi::OsStr::from_bytes(name))))
                .collect();
            let mut opts = BTreeMap::new();
            opts.insert("keep-going".to_string(), "1".to_string());
            let (record, runner) = run_script_in(script, job, dir, &opts);
            let mut events: Vec<IoEvent> = record.open_events.clone();
            for step in &record.steps {
                events.extend(step.events.iter().cloned());
            }
            drop(runner.log);
            let after: Vec<String> = foreign_names
                .iter()
                .map(|name| entry_fingerprint(&runner.dir.path.join(std::ffi::OsStr::from_bytes(name))))
                .collect();
            let (opened, created, unlinked, listed, read) = io_numbers(&events);
            let final_names = dir_names(&runner.dir.path);
            // replay order: within each open (between two listings) block reads visit files in
            // non-decreasing numeric order
            let mut order_ok = true;
            {
                let mut last: Option<u64> = None;
                for event in &events {
                    match event {
                        IoEvent::ListDir { .. } => last = None,
                        IoEvent::ReadBlock { file, .. } => {
                            if let Some(previous) = last {
                                if *file < previous {
                                    order_ok = false;
                                }
                            }
                            last = Some(*file);
                        }
                        _ => {}
                    }
                }
            }
            let _ = read;
            let line = json!({
                "ev": "dirhist", "initial": initial.iter().map(|number| digits(*number)).collect::<Vec<_>>(),
                "listed": listed.iter().map(|files| files.iter().map(|number| digits(*number)).collect::<Vec<_>>()).collect::<Vec<_>>(),
                "opened": opened.iter().map(|number| digits(*number)).collect::<Vec<_>>(),
                "created": created.iter().map(|number| digits(*number)).collect::<Vec<_>>(),
                "unlinked": unlinked.iter().map(|number| digits(*number)).collect::<Vec<_>>(),
                "foreign": foreign_names.iter().map(|name| bytes_json(name)).collect::<Vec<_>>(),
                "foreign_ok": (before == after) as i64,
                "order_ok": order_ok as i64,
                "final": final_names.iter().map(|name| bytes_json(name)).collect::<Vec<_>>(),
                "aborted": record.aborted as i64,
            });
            output_in.add("dirhist_cases", 1);
            output_in.add("dirhist_created", created.len() as u64);
            output_in.add("dirhist_unlinked", unlinked.len() as u64);
            output_in.add("runs", 1);
            output_in.add("calls", record.steps.len() as u64);
            let mut record = record;
            record.run_line["prepop"] = json!(1);
            let mut lines = crate::crash::assemble(&record, Vec::new());
            lines.push(line);
            write_lines(file, &lines);
            drop(runner.dir);
        }
    });
    let _: Option<Value> = None;
    verif::stop_recording();
    output.finish(json!({"cmd": "names"}));
    crate::exec::cleanup_scratch();
}
