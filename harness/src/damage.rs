//! Damage expansion: closed images of recorded runs + damage operations + the real `open`.
//!
//! Classes (the alphabet of the properties):
//!   payload, crc      single frame, payload / checksum bytes only          (C09, C12, C08, C10)
//!   hdr               single frame, length / type bytes, zeroed header     (C08, C12, C10)
//!   noise             bit flips, garbage and zero ranges anywhere, 1-3 ops (C08, C10)
//!   embed             aimed length damage of a frame whose payload embeds a forged frame (C08: D4)
//!   struct            truncated / removed / duplicated / swapped files and blocks, stray
//!                     entries, random blocks, blocks of valid-looking headers (C10 only)
use std::collections::BTreeMap;
use std::path::PathBuf;
use std::sync::Arc;
use std::time::Duration;

use mrecordlog::verif::{self, IoEvent};
use serde_json::{json, Value};

use crate::crash::{assemble, recover_with, Extra, Recovery};
use crate::disk::{FileImg, Image};
use crate::exec::run_script;
use crate::gen::Rng;
use crate::script::{Script, Step};
use crate::{load_scripts, parallel, write_lines, Args, Output};

const BLOCK: usize = 32_768;

#[derive(Clone, Debug)]
pub enum Op {
    Xor { file: u64, off: usize, mask: u8 },
    Write { file: u64, off: usize, bytes: Vec<u8> },
    Zero { file: u64, off: usize, len: usize },
    TruncateFile { file: u64, len: usize },
    RemoveFile { file: u64 },
    CopyFile { from: u64, to: u64 },
    SwapFiles { a: u64, b: u64 },
    CopyBlock { from: (u64, usize), to: (u64, usize) },
    SwapBlocks { a: (u64, usize), b: (u64, usize) },
    /// makes a file LONGER than a WAL file is supposed to be
    Extend { file: u64, bytes: Vec<u8> },
    /// the i-th WAL file (in numeric order) is renamed to number base + i * stride: an
    /// order-preserving renumbering (gaps allowed) must not change what the directory means
    Renumber { base: u64, stride: u64, variant: i64 },
    Add(Extra),
}

fn op_json(op: &Op) -> Value {
    match op {
        Op::Xor { file, off, mask } => json!({"k": "xor", "f": file, "o": off, "n": mask}),
        Op::Write { file, off, bytes } => json!({"k": "write", "f": file, "o": off, "n": bytes.len()}),
        Op::Zero { file, off, len } => json!({"k": "zero", "f": file, "o": off, "n": len}),
        Op::TruncateFile { file, len } => json!({"k": "truncfile", "f": file, "o": 0, "n": len}),
        Op::RemoveFile { file } => json!({"k": "rmfile", "f": file, "o": 0, "n": 0}),
        Op::CopyFile { from, to } => json!({"k": "cpfile", "f": from, "o": 0, "n": to}),
        Op::SwapFiles { a, b } => json!({"k": "swapfiles", "f": a, "o": 0, "n": b}),
        Op::CopyBlock { from, to } => json!({"k": "cpblock", "f": from.0, "o": from.1, "n": to.0 * 1000 + to.1 as u64}),
        Op::SwapBlocks { a, b } => json!({"k": "swapblocks", "f": a.0, "o": a.1, "n": b.0 * 1000 + b.1 as u64}),
        Op::Extend { file, bytes } => json!({"k": "extend", "f": file, "o": 0, "n": bytes.len()}),
        Op::Renumber { stride, variant, .. } => json!({"k": "renumber", "f": variant, "o": 0, "n": stride}),
        Op::Add(extra) => match extra {
            Extra::File { name, .. } => json!({"k": "addfile", "f": -1, "o": 0, "n": name.len()}),
            Extra::Dir { name } => json!({"k": "adddir", "f": -1, "o": 0, "n": name.len()}),
            Extra::Symlink { name, .. } => json!({"k": "addlink", "f": -1, "o": 0, "n": name.len()}),
        },
    }
}

fn apply(files: &mut BTreeMap<u64, FileImg>, extras: &mut Vec<Extra>, op: &Op) {
    match op {
        Op::Xor { file, off, mask } => {
            if let Some(img) = files.get_mut(file) {
                if *off < img.data.len() {
                    img.data[*off] ^= mask;
                }
            }
        }
        Op::Write { file, off, bytes } => {
            if let Some(img) = files.get_mut(file) {
                let end = (*off + bytes.len()).min(img.data.len());
                if *off < end {
                    img.data[*off..end].copy_from_slice(&bytes[..end - off]);
                }
            }
        }
        Op::Zero { file, off, len } => {
            if let Some(img) = files.get_mut(file) {
                let end = (*off + len).min(img.data.len());
                if *off < end {
                    img.data[*off..end].iter_mut().for_each(|byte| *byte = 0);
                }
            }
        }
        Op::Extend { file, bytes } => {
            if let Some(img) = files.get_mut(file) {
                img.data.extend_from_slice(bytes);
            }
        }
        Op::Renumber { base, stride, .. } => {
            let old = std::mem::take(files);
            for (idx, (_, img)) in old.into_iter().enumerate() {
                files.insert(base + idx as u64 * stride, img);
            }
        }
        Op::TruncateFile { file, len } => {
            if let Some(img) = files.get_mut(file) {
                img.data.truncate(*len);
            }
        }
        Op::RemoveFile { file } => {
            files.remove(file);
        }
        Op::CopyFile { from, to } => {
            if let Some(img) = files.get(from).cloned() {
                files.insert(*to, img);
            }
        }
        Op::SwapFiles { a, b } => {
            let img_a = files.remove(a);
            let img_b = files.remove(b);
            if let Some(img) = img_a {
                files.insert(*b, img);
            }
            if let Some(img) = img_b {
                files.insert(*a, img);
            }
        }
        Op::CopyBlock { from, to } => {
            let block: Option<Vec<u8>> = files.get(&from.0).and_then(|img| {
                img.data.get(from.1 * BLOCK..(from.1 + 1) * BLOCK).map(|slice| slice.to_vec())
            });
            if let (Some(block), Some(img)) = (block, files.get_mut(&to.0)) {
                if (to.1 + 1) * BLOCK <= img.data.len() {
                    img.data[to.1 * BLOCK..(to.1 + 1) * BLOCK].copy_from_slice(&block);
                }
            }
        }
        Op::SwapBlocks { a, b } => {
            let get = |files: &BTreeMap<u64, FileImg>, at: &(u64, usize)| -> Option<Vec<u8>> {
                files
                    .get(&at.0)
                    .and_then(|img| img.data.get(at.1 * BLOCK..(at.1 + 1) * BLOCK).map(|slice| slice.to_vec()))
            };
            if let (Some(block_a), Some(block_b)) = (get(files, a), get(files, b)) {
                files.get_mut(&a.0).unwrap().data[a.1 * BLOCK..(a.1 + 1) * BLOCK].copy_from_slice(&block_b);
                files.get_mut(&b.0).unwrap().data[b.1 * BLOCK..(b.1 + 1) * BLOCK].copy_from_slice(&block_a);
            }
        }
        Op::Add(extra) => extras.push(extra.clone()),
    }
}

/// One written frame with the WAL entry it belongs to.
#[derive(Clone, Debug)]
pub struct Frame {
    pub file: u64,
    pub off: usize,
    pub len: usize,
    pub frame_type: u8,
    pub entry: usize,
    pub bytes: Vec<u8>,
}

#[derive(Clone, Debug)]
pub struct EntryInfo {
    pub kind: &'static str,
    pub q: i64,
    pub first: i64,
    pub n: usize,
    pub step: i64,
}

pub fn frames_and_entries(script: &Script, all: &[(i64, &IoEvent)]) -> (Vec<Frame>, Vec<EntryInfo>) {
    let mut frames = Vec::new();
    let mut entries: Vec<EntryInfo> = Vec::new();
    let mut buffer: Vec<u8> = Vec::new();
    for (step, event) in all {
        if let IoEvent::BufWrite { file, offset, bytes, .. } = event {
            if bytes.len() < 7 {
                continue;
            }
            let frame_type = bytes[6];
            if frame_type == 1 || frame_type == 2 {
                buffer.clear();
                entries.push(EntryInfo { kind: "unknown", q: -1, first: -1, n: 0, step: *step });
            }
            buffer.extend_from_slice(&bytes[7..]);
            let ordinal = entries.len();
            frames.push(Frame {
                file: *file,
                off: *offset as usize,
                len: bytes.len(),
                frame_type,
                entry: ordinal,
                bytes: bytes.clone(),
            });
            if frame_type == 1 || frame_type == 4 {
                if let Some(decoded) = verif::decode_entry(&buffer) {
                    let info = entries.last_mut().unwrap();
                    match decoded {
                        verif::Entry::Append { queue, records, .. } => {
                            info.kind = "append";
                            info.q = script.queue_index(&queue);
                            info.first = records.first().map(|(pos, _)| script.enc(*pos)).unwrap_or(-1);
                            info.n = records.len();
                        }
                        verif::Entry::Truncate { queue, position } => {
                            info.kind = "trunc";
                            info.q = script.queue_index(&queue);
                            info.first = script.enc(position);
                        }
                        verif::Entry::Position { queue, position } => {
                            info.kind = "pos";
                            info.q = script.queue_index(&queue);
                            info.first = script.enc(position);
                        }
                        verif::Entry::Delete { queue, position } => {
                            info.kind = "del";
                            info.q = script.queue_index(&queue);
                            info.first = script.enc(position);
                        }
                    }
                }
            }
        }
    }
    (frames, entries)
}

pub struct Case {
    pub cls: &'static str,
    pub ops: Vec<Op>,
    /// ordinal of the entry owning the single damaged frame, 0 if not a single-frame damage
    pub hit: usize,
    /// frame type of the damaged frame, 0 if none
    pub hit_type: u8,
}

fn garbage(rng: &mut Rng, len: usize) -> Vec<u8> {
    let mut out = Vec::with_capacity(len + 8);
    while out.len() < len {
        out.extend_from_slice(&rng.next().to_le_bytes());
    }
    out.truncate(len);
    out
}

fn single_frame_cases(frames: &[Frame], classes: &[String], rng: &mut Rng, thorough: bool, out: &mut Vec<Case>) {
    for frame in frames {
        let pay = frame.len - 7;
        let (file, off) = (frame.file, frame.off);
        let mut push = |cls: &'static str, ops: Vec<Op>| {
            out.push(Case { cls, ops, hit: frame.entry, hit_type: frame.frame_type });
        };
        if classes.iter().any(|cls| cls == "payload") && pay > 0 {
            let mut spots = vec![0, pay / 2, pay - 1];
            spots.dedup();
            for spot in spots {
                push("payload", vec![Op::Xor { file, off: off + 7 + spot, mask: 1 << rng.below(8) }]);
            }
            push("payload", vec![Op::Write { file, off: off + 7, bytes: garbage(rng, pay) }]);
            push("payload", vec![Op::Zero { file, off: off + 7, len: pay }]);
            if thorough {
                for _ in 0..4 {
                    let spot = rng.below(pay as u64) as usize;
                    push("payload", vec![Op::Xor { file, off: off + 7 + spot, mask: 1 << rng.below(8) }]);
                }
            }
        }
        if classes.iter().any(|cls| cls == "crc") {
            for byte in 0..4 {
                push("crc", vec![Op::Xor { file, off: off + byte, mask: 1 << rng.below(8) }]);
            }
            push("crc", vec![Op::Write { file, off, bytes: garbage(rng, 4) }]);
            // a sentinel checksum (erased field) over a payload that no longer matches it: no value of the
            // field may stand for "not checked" (M203)
            if pay > 0 {
                let sentinels: &[u8] = if thorough { &[0x00, 0xff] } else { &[0x00] };
                for &fill in sentinels {
                    let mut spots = vec![0, pay - 1];
                    spots.dedup();
                    for spot in spots {
                        push("crc", vec![Op::Write { file, off, bytes: vec![fill; 4] },
                                         Op::Xor { file, off: off + 7 + spot, mask: 1 << rng.below(8) }]);
                    }
                }
            }
            if thorough {
                for bit in 0..32 {
                    push("crc", vec![Op::Xor { file, off: off + bit / 8, mask: 1 << (bit % 8) }]);
                }
            }
        }
        if classes.iter().any(|cls| cls == "hdr") {
            // length field: every bit (thorough) or a few; type byte: other valid, invalid; zero header
            let bits: Vec<usize> = if thorough { (0..16).collect() } else { vec![0, 3, 7, 8, 12, 15] };
            for bit in bits {
                push("hdr", vec![Op::Xor { file, off: off + 4 + bit / 8, mask: 1 << (bit % 8) }]);
            }
            for new_type in [0u8, 1, 2, 3, 4, 5, 0xff] {
                if new_type != frame.frame_type {
                    push("hdr", vec![Op::Write { file, off: off + 6, bytes: vec![new_type] }]);
                }
            }
            push("hdr", vec![Op::Zero { file, off, len: 7 }]);
            push("hdr", vec![Op::Write { file, off, bytes: garbage(rng, 7) }]);
            // pattern fills (what an erased or unmapped range reads back as on some media)
            for fill in [0xffu8, 0x01, 0x55] {
                push("hdr", vec![Op::Write { file, off, bytes: vec![fill; 7] }]);
            }
            // a shorter / longer declared length
            for new_len in [0u16, 1, (pay as u16).wrapping_sub(1), (pay as u16).wrapping_add(1), 0x7fff, 0xffff] {
                push("hdr", vec![Op::Write { file, off: off + 4, bytes: new_len.to_le_bytes().to_vec() }]);
            }
            // the boundary of the reader's over-long test: a declared extent that ends exactly at
            // the block end, and 1..8 bytes beyond it
            let room = BLOCK - (off % BLOCK) - 7;
            for delta in -1i64..=8 {
                let new_len = room as i64 + delta;
                if (0..=0xffff).contains(&new_len) && new_len as usize != pay {
                    push("hdr", vec![Op::Write { file, off: off + 4, bytes: (new_len as u16).to_le_bytes().to_vec() }]);
                }
            }
        }
    }
}

fn find(haystack: &[u8], needle: &[u8]) -> Option<usize> {
    haystack.windows(needle.len()).position(|window| window == needle)
}

fn embed_cases(script: &Script, frames: &[Frame], out: &mut Vec<Case>) {
    // for every payload with an embedded forged frame: aim the enclosing frame's length field so
    // that the reader resynchronises exactly on the forged frame
    for step in &script.steps {
        if let Step::Append { batch, .. } = step {
            for payload in batch {
                if let Some(embed) = &payload.embed {
                    let inner = crate::script::plain_bytes(embed.pseed, embed.plen);
                    let entry = verif::Entry::Append {
                        queue: script.queues[embed.q].clone(),
                        position: embed.pos,
                        records: vec![(embed.pos, inner)],
                    };
                    let forged = crate::exec::forge_frame(&verif::encode_entry(&entry));
                    for frame in frames {
                        if let Some(at) = find(&frame.bytes, &forged) {
                            if at >= 7 {
                                let new_len = (at - 7) as u16;
                                out.push(Case {
                                    cls: "embed",
                                    ops: vec![Op::Write {
                                        file: frame.file,
                                        off: frame.off + 4,
                                        bytes: new_len.to_le_bytes().to_vec(),
                                    }],
                                    hit: frame.entry,
                                    hit_type: frame.frame_type,
                                });
                            }
                        }
                    }
                }
            }
        }
    }
}

fn noise_cases(files: &BTreeMap<u64, FileImg>, frames: &[Frame], rng: &mut Rng, count: usize, out: &mut Vec<Case>) {
    let numbers: Vec<u64> = files.keys().copied().collect();
    if numbers.is_empty() {
        return;
    }
    let data_end: BTreeMap<u64, usize> = {
        let mut ends = BTreeMap::new();
        for frame in frames {
            let end = ends.entry(frame.file).or_insert(0usize);
            *end = (*end).max(frame.off + frame.len);
        }
        ends
    };
    for _ in 0..count {
        let n_ops = 1 + rng.below(3) as usize;
        let mut ops = Vec::new();
        for _ in 0..n_ops {
            let file = *rng.pick(&numbers);
            let size = files[&file].data.len().max(1);
            let used = data_end.get(&file).copied().unwrap_or(0).max(64).min(size);
            // mostly inside the written part, sometimes anywhere
            let off = if rng.chance(85) { rng.below(used as u64) as usize } else { rng.below(size as u64) as usize };
            match rng.below(8) {
                0 | 1 => ops.push(Op::Xor { file, off, mask: 1 << rng.below(8) }),
                2 => {
                    let len = 1 + rng.below(16) as usize;
                    ops.push(Op::Write { file, off, bytes: garbage(rng, len) });
                }
                3 => {
                    let len = 1 + rng.below(2000) as usize;
                    ops.push(Op::Write { file, off, bytes: garbage(rng, len) });
                }
                4 => {
                    let len = BLOCK / 2 + rng.below(3 * BLOCK as u64) as usize;
                    ops.push(Op::Write { file, off, bytes: garbage(rng, len) });
                }
                5 => ops.push(Op::Zero { file, off, len: 1 + rng.below(64) as usize }),
                6 => ops.push(Op::Zero { file, off, len: 1 + rng.below(2 * BLOCK as u64) as usize }),
                _ => {
                    // the last bytes of a block / the first bytes of the next one
                    let block = off / BLOCK;
                    let at = ((block + 1) * BLOCK).saturating_sub(1 + rng.below(9) as usize);
                    let len = 1 + rng.below(16) as usize;
                    ops.push(Op::Write { file, off: at.min(size - 1), bytes: garbage(rng, len) });
                }
            }
        }
        out.push(Case { cls: "noise", ops, hit: 0, hit_type: 0 });
    }
}

fn fake_header_block(rng: &mut Rng) -> Vec<u8> {
    let mut block = Vec::with_capacity(BLOCK);
    while block.len() + 7 <= BLOCK {
        let len = match rng.below(4) {
            0 => 0,
            1 => rng.below(40),
            2 => rng.below(4000),
            _ => rng.below(40_000),
        } as u16;
        block.extend_from_slice(&(rng.next() as u32).to_le_bytes());
        block.extend_from_slice(&len.to_le_bytes());
        block.push(1 + rng.below(4) as u8);
        let body = (len as usize).min(BLOCK - block.len());
        block.extend_from_slice(&garbage(rng, body));
    }
    block.resize(BLOCK, 0);
    block
}

/// One well-formed Full frame around `payload` (checksum over type byte + payload, as the library does).
fn full_frame(payload: &[u8]) -> Vec<u8> {
    let mut hasher = crc32fast::Hasher::default();
    hasher.update(&[1u8]);
    hasher.update(payload);
    let mut out = Vec::with_capacity(payload.len() + 7);
    out.extend_from_slice(&hasher.finalize().to_le_bytes());
    out.extend_from_slice(&(payload.len() as u16).to_le_bytes());
    out.push(1);
    out.extend_from_slice(payload);
    out
}

fn raw_entry(record_type: u8, position: u64, queue: &[u8], declared_queue_len: u16, body: &[u8]) -> Vec<u8> {
    let mut out = vec![record_type];
    out.extend_from_slice(&position.to_le_bytes());
    out.extend_from_slice(&declared_queue_len.to_le_bytes());
    out.extend_from_slice(queue);
    out.extend_from_slice(body);
    out
}

fn multi(records: &[(u64, u32, &[u8])]) -> Vec<u8> {
    let mut out = Vec::new();
    for (position, declared_len, payload) in records {
        out.extend_from_slice(&position.to_le_bytes());
        out.extend_from_slice(&declared_len.to_le_bytes());
        out.extend_from_slice(payload);
    }
    out
}

/// Checksum-valid frames with hostile ENTRIES, written where the log ends (so that replay reads
/// them): unknown entry types, lengths pointing beyond the entry, invalid UTF-8 names, positions at
/// the edge of u64, entries for unknown queues, batches of very many empty records.  `open` may
/// accept or reject them; it must not panic, hang or allocate without bound (C10).
fn hostile_cases(script: &Script, frames: &[Frame], out: &mut Vec<Case>) {
    let Some(last) = frames.iter().max_by_key(|frame| (frame.file, frame.off)) else { return };
    let file = last.file;
    let mut off = last.off + last.len;
    let rem = BLOCK - off % BLOCK;
    if rem < 7 {
        off += rem;
    }
    if off + 7 + 64 >= 4 * BLOCK {
        return;
    }
    let room = BLOCK - off % BLOCK - 7;
    let known = script.queues.first().map(|name| name.as_bytes().to_vec()).unwrap_or_else(|| b"q".to_vec());
    let known: &[u8] = if known.len() < 200 { &known } else { b"q" };
    let fresh: &[u8] = b"hostile-queue";
    let max = u64::MAX;
    let mut entries: Vec<Vec<u8>> = vec![
        // unknown entry types
        raw_entry(0, 0, fresh, fresh.len() as u16, &[]),
        raw_entry(5, 0, fresh, fresh.len() as u16, &[]),
        raw_entry(0xff, max, fresh, fresh.len() as u16, &[1, 2, 3]),
        // shorter than the fixed header
        vec![4u8, 1, 2, 3],
        Vec::new(),
        // declared name length beyond the entry
        raw_entry(4, 0, fresh, 0xffff, &[]),
        raw_entry(1, 3, fresh, fresh.len() as u16 + 1, &[]),
        // invalid UTF-8 in the name
        raw_entry(2, 0, &[0xff, 0xfe, 0x80], 3, &[]),
        raw_entry(4, 0, &[0xc3], 1, &multi(&[(0, 1, b"x")])),
        // empty name
        raw_entry(2, 7, b"", 0, &[]),
        raw_entry(4, 7, b"", 0, &multi(&[(7, 1, b"x")])),
    ];
    for queue in [known, fresh] {
        let qlen = queue.len() as u16;
        // positions at the edge of u64
        for position in [max, max - 1, 1u64 << 63] {
            entries.push(raw_entry(1, position, queue, qlen, &[]));
            entries.push(raw_entry(2, position, queue, qlen, &[]));
            entries.push(raw_entry(3, position, queue, qlen, &[]));
            entries.push(raw_entry(4, position, queue, qlen, &multi(&[(position, 1, b"x")])));
            entries.push(raw_entry(4, position, queue, qlen, &multi(&[(position, 1, b"x"), (position.wrapping_add(1), 1, b"y")])));
            entries.push(raw_entry(4, 0, queue, qlen, &multi(&[(position, 0, b"")])));
        }
        // batch lengths pointing beyond the entry, truncated record headers, decreasing positions
        entries.push(raw_entry(4, 100, queue, qlen, &multi(&[(100, 0xffff_ffff, b"abc")])));
        entries.push(raw_entry(4, 100, queue, qlen, &multi(&[(100, 4, b"abc")])));
        entries.push(raw_entry(4, 100, queue, qlen, &[1, 2, 3, 4, 5]));
        entries.push(raw_entry(4, 100, queue, qlen, &multi(&[(101, 1, b"a"), (100, 1, b"b")])));
        entries.push(raw_entry(4, 100, queue, qlen, &multi(&[(100, 1, b"a"), (100, 1, b"b")])));
        // entry position and record positions disagree
        entries.push(raw_entry(4, 5, queue, qlen, &multi(&[(1_000_000, 1, b"a")])));
        // very many empty records in one entry (as many as one frame holds)
        let many = (room.min(30_000).saturating_sub(11 + queue.len())) / 12;
        let mut body = Vec::with_capacity(many * 12);
        for idx in 0..many as u64 {
            body.extend_from_slice(&(1_000 + idx).to_le_bytes());
            body.extend_from_slice(&0u32.to_le_bytes());
        }
        entries.push(raw_entry(4, 1_000, queue, qlen, &body));
        // a batch without any record (the library never writes one)
        entries.push(raw_entry(4, 0, queue, qlen, &[]));
        entries.push(raw_entry(4, 1 << 40, queue, qlen, &[]));
        // delete / truncate / position for a queue in various states
        entries.push(raw_entry(3, 0, queue, qlen, &[9, 9, 9]));
        entries.push(raw_entry(1, 0, queue, qlen, &[9, 9, 9]));
    }
    for entry in entries {
        if entry.len() > room {
            continue;
        }
        let frame = full_frame(&entry);
        // alone, and followed by an ordinary append on the same queue (replay continues behind it)
        out.push(Case { cls: "hostile", ops: vec![Op::Write { file, off, bytes: frame.clone() }], hit: 0, hit_type: 0 });
        let follow = full_frame(&raw_entry(4, 0, fresh, fresh.len() as u16, &multi(&[(0, 2, b"ok")])));
        if entry.len() + 7 + follow.len() <= room {
            let mut both = frame;
            both.extend_from_slice(&follow);
            out.push(Case { cls: "hostile", ops: vec![Op::Write { file, off, bytes: both }], hit: 0, hit_type: 0 });
        }
    }
}

/// Compound experiment "damage, then a crash inside a later append": the damaged directory is
/// opened with the real library, one record is appended through the API - sized so that its first
/// frame ends at the end of the block the writer resumed in and its tail is exactly as long as the
/// stale Last frame that opens the next block, if there is one - and every process-crash image
/// inside that append is recovered.  Returns (effect index, recovery, [q, pos, digest, len]).
fn crash_in_aimed_append(
    script: &Arc<Script>,
    damaged: &BTreeMap<u64, FileImg>,
    live: &[Frame],
    seed: u64,
    deadline: Duration,
) -> Vec<(usize, Recovery, Value)> {
    use crate::disk::BufModel;
    use crate::exec::{apply_step, open_log, payload_bytes, TempDir};
    use crate::script::{digest, Payload};
    let mut out = Vec::new();
    let dir = TempDir::new();
    Image::materialize(damaged, &dir.path);
    verif::start_recording();
    let Ok(mut log) = open_log(&dir.path, &script.policy) else {
        verif::stop_recording();
        return out;
    };
    verif::take_events();
    let base = Image::from_dir(&dir.path);
    let snapshot = log.verif_snapshot();
    let (file, cursor) = (snapshot.writer_file, snapshot.writer_offset);
    let Some(q) = (0..script.queues.len()).find(|q| log.queue_exists(&script.queues[*q]) && script.queues[*q].len() < 200) else {
        verif::stop_recording();
        return out;
    };
    let next_block = (cursor / BLOCK + 1) * BLOCK;
    if next_block >= 4 * BLOCK || next_block - cursor < 7 + 11 + script.queues[q].len() + 12 + 1 {
        verif::stop_recording();
        return out;
    }
    let room = next_block - cursor - 7;
    let stale_tail = live
        .iter()
        .find(|frame| frame.file == file && frame.off == next_block && frame.frame_type == 4)
        .map(|frame| frame.len - 7)
        .unwrap_or(1000);
    // three shapes of the append: one record whose tail is as long as the stale one (the spliced
    // entry decodes: C08); a batch of small records closed by such a record (same, with genuine
    // records in front); a batch whose last record is 3 bytes longer than that (the spliced entry is
    // malformed and must be dropped as a whole: C12)
    let variant = seed % 3;
    let entry_head = 11 + script.queues[q].len();
    let mut lens: Vec<usize> = Vec::new();
    let mut used = entry_head;
    if variant > 0 {
        let small = 20 + (seed % 40) as usize;
        while lens.len() < 120 && used + 2 * (12 + small) + 12 < room {
            lens.push(small);
            used += 12 + small;
        }
    }
    if used + 12 >= room {
        verif::stop_recording();
        return out;
    }
    lens.push(room - used - 12 + stale_tail + if variant == 2 { 3 } else { 0 });
    let payloads: Vec<Payload> = lens
        .iter()
        .enumerate()
        .map(|(idx, len)| Payload { seed: (seed | 1).wrapping_add(idx as u64 * 2), len: *len, embed: None })
        .collect();
    let position = match log.last_position(&script.queues[q]) {
        Ok(Some(last)) => last + 1,
        _ => snapshot
            .queues
            .iter()
            .find(|queue| queue.name == script.queues[q])
            .map(|queue| queue.start_position)
            .unwrap_or(0),
    };
    if script.enc(position) < 0 || script.enc(position + payloads.len() as u64) < 0 {
        verif::stop_recording();
        return out;
    }
    let recs: Vec<Value> = payloads
        .iter()
        .enumerate()
        .map(|(idx, payload)| {
            let bytes = payload_bytes(script, payload);
            json!([script.enc(position + idx as u64), digest(&bytes), bytes.len()])
        })
        .collect();
    let inflight = json!({"q": q, "recs": recs, "variant": variant});
    let step = Step::Append { q, pos: None, batch: payloads };
    let _ = apply_step(script, &mut log, &step);
    let events = verif::take_events();
    verif::stop_recording();
    std::mem::forget(log);
    let mut model = BufModel::default();
    let mut effects = Vec::new();
    for event in &events {
        model.feed(event, 0, &mut effects);
    }
    let mut image = base;
    for (k, tagged) in effects.iter().enumerate() {
        if k > 0 {
            let recovery = crate::crash::recover(script, &image.process_image(), false, seed.wrapping_add(k as u64), deadline);
            out.push((k, recovery, inflight.clone()));
        }
        image.apply(&tagged.eff, None);
    }
    out
}

fn struct_cases(files: &BTreeMap<u64, FileImg>, rng: &mut Rng, count: usize, out: &mut Vec<Case>) {
    let numbers: Vec<u64> = files.keys().copied().collect();
    if numbers.is_empty() {
        return;
    }
    let first = numbers[0];
    let last = *numbers.last().unwrap();
    let wal_name = |number: u64| format!("wal-{number:020}").into_bytes();
    let mut fixed: Vec<Vec<Op>> = vec![
        vec![Op::TruncateFile { file: first, len: 0 }],
        vec![Op::TruncateFile { file: last, len: 0 }],
        vec![Op::TruncateFile { file: first, len: 1 }],
        vec![Op::TruncateFile { file: last, len: BLOCK - 1 }],
        vec![Op::TruncateFile { file: first, len: BLOCK + 1 }],
        vec![Op::TruncateFile { file: last, len: 2 * BLOCK + 5 }],
        vec![Op::RemoveFile { file: first }],
        vec![Op::RemoveFile { file: last }],
        vec![Op::CopyFile { from: first, to: last + 1 }],
        vec![Op::CopyFile { from: last, to: last + 2 }],
        vec![Op::CopyFile { from: last, to: last + 1_000_000 }],
        vec![Op::CopyFile { from: last, to: u64::MAX - 1 }],
        // the largest supported file number, read to its last block (content: a copy of a WAL
        // file / blocks without any zero header)
        vec![Op::CopyFile { from: first, to: u64::MAX }],
        vec![Op::CopyFile { from: last, to: u64::MAX }],
        vec![Op::Add(Extra::File { name: wal_name(u64::MAX), content: vec![0xFFu8; 4 * BLOCK] })],
        vec![Op::Add(Extra::File { name: wal_name(u64::MAX), content: garbage(rng, 4 * BLOCK) })],
        vec![Op::RemoveFile { file: last }, Op::CopyFile { from: first, to: u64::MAX }],
        vec![Op::Add(Extra::Dir { name: wal_name(last + 1) })],
        vec![Op::Add(Extra::Symlink { name: wal_name(last + 1), target: wal_name(first) })],
        vec![Op::Add(Extra::Symlink { name: wal_name(last + 3), target: b"does-not-exist".to_vec() })],
        vec![Op::Add(Extra::File { name: b"wal-0000000000000000000".to_vec(), content: garbage(rng, 100) })],
        vec![Op::Add(Extra::File { name: b"wal-000000000000000000001".to_vec(), content: garbage(rng, 100) })],
        vec![Op::Add(Extra::File { name: b"notes.txt".to_vec(), content: b"hello".to_vec() })],
        vec![Op::Add(Extra::File { name: vec![b'w', b'a', b'l', b'-', 0xff, 0xfe], content: vec![1, 2, 3] })],
        vec![Op::Add(Extra::File { name: wal_name(last + 1), content: Vec::new() })],
        vec![Op::Add(Extra::File { name: wal_name(last + 1), content: garbage(rng, BLOCK - 1) })],
        vec![Op::Add(Extra::File { name: wal_name(last + 1), content: fake_header_block(rng) })],
        vec![Op::Add(Extra::File { name: wal_name(last + 2), content: garbage(rng, 4 * BLOCK) })],
    ];
    // no WAL file at all, and the name of the first one taken by something that is not a regular file
    {
        let wipe: Vec<Op> = numbers.iter().map(|number| Op::RemoveFile { file: *number }).collect();
        fixed.push(wipe.clone());
        for extra in [
            Extra::Dir { name: wal_name(0) },
            Extra::Symlink { name: wal_name(0), target: b"does-not-exist".to_vec() },
            Extra::Symlink { name: wal_name(0), target: b"notes.txt".to_vec() },
        ] {
            let mut ops = wipe.clone();
            ops.push(Op::Add(Extra::File { name: b"notes.txt".to_vec(), content: b"hello".to_vec() }));
            ops.push(Op::Add(extra));
            fixed.push(ops);
        }
    }
    // files LONGER than a WAL file: whole extra blocks (a copy of the first block of the log, of the
    // file's own last block, garbage, zeros), a fraction of a block, many blocks - on the newest
    // file, on the oldest, and on the file that becomes the newest once the newest is removed
    {
        let first_block: Vec<u8> = files[&first].data.iter().take(BLOCK).copied().collect();
        let mut targets = vec![(last, false), (first, false)];
        if numbers.len() >= 2 {
            targets.push((numbers[numbers.len() - 2], true));
        }
        for (target, drop_newest) in targets {
            let own_last: Vec<u8> = {
                let data = &files[&target].data;
                data[data.len().saturating_sub(BLOCK)..].to_vec()
            };
            let many: Vec<u8> = first_block.iter().cycle().take(6 * BLOCK).copied().collect();
            for bytes in [first_block.clone(), own_last, garbage(rng, BLOCK), vec![0u8; BLOCK], garbage(rng, BLOCK / 2 + 3), many] {
                let mut ops = Vec::new();
                if drop_newest {
                    ops.push(Op::RemoveFile { file: last });
                }
                ops.push(Op::Extend { file: target, bytes });
                fixed.push(ops);
            }
        }
    }
    // names of the right shape whose 20 digits do not fit a u64, or sit at its edge: as stray empty
    // files, as stray full-size files, and as the name of a copy of a real WAL file
    for digits in ["18446744073709551616", "18446744073709551617", "18446744073709551625", "20000000000000000000",
                   "99999999999999999999", "18446744073709551614", "09223372036854775808"] {
        let name = format!("wal-{digits}").into_bytes();
        fixed.push(vec![Op::Add(Extra::File { name: name.clone(), content: Vec::new() })]);
        fixed.push(vec![Op::Add(Extra::File { name: name.clone(), content: vec![0u8; 4 * BLOCK] })]);
        fixed.push(vec![Op::Add(Extra::File { name, content: files[&last].data.clone() })]);
    }
    // 24-byte names that are not 24 characters (a multi-byte character across byte offsets 3..6)
    for name in crate::names::straddling_names() {
        let cut = name.iter().position(|byte| *byte >= 0x80).unwrap_or(0);
        if (1..=4).contains(&cut) {
            fixed.push(vec![Op::Add(Extra::File { name, content: garbage(rng, 100) })]);
        }
    }
    if numbers.len() >= 2 {
        let middle = numbers[numbers.len() / 2];
        fixed.push(vec![Op::RemoveFile { file: middle }]);
        fixed.push(vec![Op::SwapFiles { a: first, b: last }]);
        fixed.push(vec![Op::TruncateFile { file: middle, len: BLOCK + 100 }]);
        fixed.push(vec![Op::CopyFile { from: first, to: last }]);
    }
    for ops in fixed {
        out.push(Case { cls: "struct", ops, hit: 0, hit_type: 0 });
    }
    for _ in 0..count {
        let mut ops = Vec::new();
        for _ in 0..1 + rng.below(3) {
            let file_a = *rng.pick(&numbers);
            let file_b = *rng.pick(&numbers);
            let blocks_a = (files[&file_a].data.len() / BLOCK).max(1);
            let blocks_b = (files[&file_b].data.len() / BLOCK).max(1);
            let block_a = rng.below(blocks_a as u64) as usize;
            let block_b = rng.below(blocks_b as u64) as usize;
            match rng.below(8) {
                0 => ops.push(Op::CopyBlock { from: (file_a, block_a), to: (file_b, block_b) }),
                1 => ops.push(Op::SwapBlocks { a: (file_a, block_a), b: (file_b, block_b) }),
                2 => ops.push(Op::Write { file: file_a, off: block_a * BLOCK, bytes: garbage(rng, BLOCK) }),
                3 => ops.push(Op::Write { file: file_a, off: block_a * BLOCK, bytes: fake_header_block(rng) }),
                4 => ops.push(Op::TruncateFile { file: file_a, len: rng.below(4 * BLOCK as u64 + 1) as usize }),
                5 => ops.push(Op::Zero { file: file_a, off: block_a * BLOCK, len: BLOCK }),
                6 => ops.push(Op::CopyFile { from: file_a, to: last + 1 + rng.below(3) }),
                _ => ops.push(Op::RemoveFile { file: file_a }),
            }
        }
        out.push(Case { cls: "struct", ops, hit: 0, hit_type: 0 });
    }
}

fn group_key(cls: &str, hit: usize, recovery: &Recovery) -> String {
    let mut key = format!("{cls}|{hit}|{}|{}|", recovery.out, recovery.accpanic);
    if let Some(qs) = recovery.st.get("qs") {
        key.push_str(&qs.to_string());
    }
    for line in &recovery.cont {
        if line["ev"] == "end" {
            key.push_str(&line["res"].to_string());
            if let Some(qs) = line.get("st").and_then(|st| st.get("qs")) {
                key.push_str(&qs.to_string());
            }
        }
    }
    key
}

pub fn cmd(args: &Args) {
    let scripts = Arc::new(load_scripts(args));
    let out_dir = PathBuf::from(args.get("out", "/dev/shm/mrl-out"));
    let output = Arc::new(Output::new(&out_dir));
    let classes: Vec<String> = args
        .get("classes", "payload,crc")
        .split(',')
        .map(|cls| cls.to_string())
        .collect();
    let thorough = args.flag("thorough");
    let noise_count = args.num("noise", 200) as usize;
    let struct_count = args.num("struct", 100) as usize;
    let dmgcrash = args.flag("dmgcrash");
    let compound_budget = args.num("compound", 60) as usize;
    let max_cases = args.num("max-cases", 0) as usize;
    let cont = args.flag("cont");
    let seed = args.num("seed", 1);
    let deadline = Duration::from_secs(args.num("deadline", 10));
    let n = scripts.len();
    let output_in = output.clone();
    parallel(n, args.num("jobs", 8) as usize, &out_dir, "trace", move |job, file| {
        let script = &scripts[job];
        std::fs::write(
            output_in.dir.join("scripts").join(format!("{}.json", script.name)),
            serde_json::to_vec(script).unwrap(),
        )
        .unwrap();
        let (record, mut runner) = run_script(script, job);
        drop(runner.log.take());
        let image = Image::from_dir(&runner.dir.path);
        drop(runner);
        output_in.add("runs", 1);
        output_in.add("calls", record.steps.len() as u64);
        if record.aborted {
            output_in.add("aborted_runs", 1);
            write_lines(file, &assemble(&record, Vec::new()));
            return;
        }
        let mut all: Vec<(i64, &IoEvent)> = record.open_events.iter().map(|event| (-1i64, event)).collect();
        for step in &record.steps {
            all.extend(step.events.iter().map(|event| (step.idx as i64, event)));
        }
        let (frames, entries) = frames_and_entries(script, &all);
        let live: Vec<Frame> = frames
            .iter()
            .filter(|frame| image.files.contains_key(&frame.file))
            .cloned()
            .collect();
        output_in.add("frames_in_images", live.len() as u64);
        let mut rng = Rng(seed.wrapping_mul(0x1234_5677).wrapping_add(job as u64));
        let mut cases = Vec::new();
        single_frame_cases(&live, &classes, &mut rng, thorough, &mut cases);
        if classes.iter().any(|cls| cls == "embed") {
            embed_cases(script, &live, &mut cases);
        }
        if classes.iter().any(|cls| cls == "noise") {
            noise_cases(&image.files, &live, &mut rng, noise_count, &mut cases);
        }
        if classes.iter().any(|cls| cls == "struct") {
            struct_cases(&image.files, &mut rng, struct_count, &mut cases);
        }
        if classes.iter().any(|cls| cls == "hostile") {
            hostile_cases(script, &live, &mut cases);
        }
        if classes.iter().any(|cls| cls == "renumber") && !image.files.is_empty() {
            // 20-digit numbers: below, across and above 10^19, and near the top of u64 (far enough from
            // it for the roll-overs of a continuation)
            let count = image.files.len() as u64;
            let ten19 = 10_000_000_000_000_000_000u64;
            let bases = [
                (1u64, 7u64),
                (ten19 - 1, 1),
                (ten19 - 2, 3),
                (ten19 + 5, 1),
                (u64::MAX - 1000 - 3 * count, 3),
                (999_999_999, 1),
            ];
            for (variant, (base, stride)) in bases.iter().enumerate() {
                cases.push(Case { cls: "renumber", ops: vec![Op::Renumber { base: *base, stride: *stride, variant: variant as i64 }], hit: 0, hit_type: 0 });
            }
        }
        if max_cases > 0 && cases.len() > max_cases {
            // thin evenly
            let total = cases.len();
            let mut kept = Vec::new();
            for (idx, case) in cases.into_iter().enumerate() {
                if (idx * max_cases) / total != ((idx + 1) * max_cases) / total {
                    kept.push(case);
                }
            }
            cases = kept;
        }
        let mut lines = assemble(&record, Vec::new());
        let script_arc = Arc::new(script.clone());
        let mut compound_done = 0usize;
        let mut compound_seen: std::collections::HashSet<(bool, (u64, usize))> = std::collections::HashSet::new();
        let mut groups: BTreeMap<String, usize> = BTreeMap::new();
        let mut group_lines: Vec<Vec<Value>> = Vec::new();
        for case in &cases {
            let mut files = image.files.clone();
            let mut extras = Vec::new();
            for op in &case.ops {
                apply(&mut files, &mut extras, op);
            }
            let image_bytes: usize = files.values().map(|img| img.data.len()).sum();
            let case_seed = rng.next();
            let with_cont = cont && (case.cls == "payload" || case.cls == "crc");
            let recovery = recover_with(&script_arc, &files, &extras, with_cont, case_seed, deadline);
            output_in.add("damage_cases", 1);
            output_in.add(&format!("damage_{}", case.cls), 1);
            if recovery.out == "ok" {
                output_in.add("damage_open_ok", 1);
            } else {
                output_in.add(&format!("damage_open_{}", recovery.out), 1);
            }
            // damage first, then a crash inside a later append (a budget of experiments per script)
            // decided by observation, not by the kind of damage: the experiment is run whenever the
            // writer of the reopened log stands IN FRONT OF frames of the image (the damage made the
            // reader stop early, whatever made it do so); one experiment per resume point and kind
            // (where the reader stopped: the last seek of open - into_writer positions the writer there)
            let stop = recovery
                .io
                .iter()
                .rev()
                .find(|event| event["e"] == "SK")
                .map(|event| (event["f"].as_u64().unwrap_or(0), event["o"].as_u64().unwrap_or(0) as usize))
                .unwrap_or((0, 0));
            let stale_ahead = recovery.out == "ok"
                && live.iter().any(|frame| frame.frame_type != 0 && (frame.file, frame.off) >= stop);
            // what the reader met there: an all-zero header is the end-of-log marker (finding D10 when
            // damage made the reader meet one in front of valid frames: by zeroing a header, or by
            // altering a length field so that the reader resynchronises on zero bytes); anything else
            // means the reader took something that is not the marker for the end of the log
            let at_marker = files
                .get(&stop.0)
                .map(|img| img.data.len() >= stop.1 + 7 && img.data[stop.1..stop.1 + 7].iter().all(|byte| *byte == 0))
                .unwrap_or(false);
            if dmgcrash && stale_ahead && case.ops.len() == 1 && compound_seen.insert((at_marker, stop)) {
                let wanted = compound_done < compound_budget;
                if wanted {
                    compound_done += 1;
                    for (k, recovery2, inflight) in crash_in_aimed_append(&script_arc, &files, &live, case_seed, deadline) {
                        output_in.add("damage_cases", 1);
                        output_in.add("damage_dmgcrash", 1);
                        // (the verdict depends on whether the reader stopped at the marker - finding D10 - so
                        // the two kinds never share a group)
                        let key2 = format!("dmgcrash|{}|{}", at_marker, group_key("dmgcrash", case.hit, &recovery2));
                        if groups.contains_key(&key2) {
                            continue;
                        }
                        let mut ops_json: Vec<Value> = case.ops.iter().map(op_json).collect();
                        ops_json.push(json!({"k": "crashappend", "f": -1, "o": 0, "n": k}));
                        let dmgkind = if at_marker {
                            "zeromarker".to_string()
                        } else {
                            match &case.ops[0] {
                                Op::Zero { len, .. } => format!("{} zero-fill of {} bytes", case.cls, len),
                                Op::Write { bytes, .. } => format!("{} write of {} bytes", case.cls, bytes.len()),
                                Op::Xor { .. } => format!("{} bit flip", case.cls),
                                _ => case.cls.to_string(),
                            }
                        };
                        let mut line2 = json!({
                            "ev": "damage", "cls": "dmgcrash", "ops": ops_json, "dmgkind": dmgkind,
                            "hit": {"entry": 0, "kind": "none", "q": -1, "first": -1, "n": 0, "step": -1, "ftype": 0},
                            "n": 1, "out": recovery2.out, "errtext": recovery2.errtext, "accpanic": recovery2.accpanic,
                            "peak": recovery2.peak, "allocok": 1, "ncont": 0, "inflight": inflight,
                        });
                        if recovery2.out == "ok" && recovery2.accpanic == 0 {
                            line2["st"] = recovery2.st.clone();
                        }
                        groups.insert(key2, group_lines.len());
                        group_lines.push(vec![line2]);
                    }
                }
            }
            let key = group_key(case.cls, case.hit, &recovery);
            if let Some(existing) = groups.get(&key) {
                let line = &mut group_lines[*existing][0];
                line["n"] = json!(line["n"].as_i64().unwrap() + 1);
                continue;
            }
            let hit = if case.hit > 0 {
                let info = &entries[case.hit - 1];
                json!({"entry": case.hit, "kind": info.kind, "q": info.q, "first": info.first, "n": info.n,
                       "step": info.step, "ftype": case.hit_type})
            } else {
                json!({"entry": 0, "kind": "none", "q": -1, "first": -1, "n": 0, "step": -1, "ftype": 0})
            };
            let alloc_bound = 8 * image_bytes + (64 << 20);
            let mut line = json!({
                "ev": "damage", "cls": case.cls, "ops": case.ops.iter().map(op_json).collect::<Vec<_>>(),
                "hit": hit, "n": 1, "out": recovery.out, "errtext": recovery.errtext, "accpanic": recovery.accpanic,
                "peak": recovery.peak, "allocok": (recovery.peak <= alloc_bound) as i64,
                "ncont": recovery.cont.len(),
            });
            if recovery.out == "ok" && recovery.accpanic == 0 {
                line["st"] = recovery.st.clone();
            }
            let mut block = vec![line];
            block.extend(recovery.cont.iter().cloned());
            if !recovery.cont.is_empty() {
                block.push(json!({"ev": "pop"}));
            }
            groups.insert(key, group_lines.len());
            group_lines.push(block);
            if recovery.out == "timeout" {
                break;
            }
        }
        output_in.add("damage_groups", group_lines.len() as u64);
        for block in group_lines {
            lines.extend(block);
        }
        output_in.sample(json!({"script": script.name, "frames": live.len(), "cases": cases.len(),
            "first_cases": cases.iter().take(3).map(|case| json!({"cls": case.cls, "ops": case.ops.iter().map(op_json).collect::<Vec<_>>()})).collect::<Vec<_>>()}));
        output_in.add("trace_lines", lines.len() as u64);
        write_lines(file, &lines);
    });
    output.finish(json!({"cmd": "damage", "classes": args.get("classes", "payload,crc")}));
    crate::exec::cleanup_scratch();
}
