//! Executes a script against the real library and records what happened.
use std::collections::BTreeMap;
use std::ops::Bound;
use std::panic::{catch_unwind, AssertUnwindSafe};
use std::path::{Path, PathBuf};
use std::sync::atomic::{AtomicUsize, Ordering};

use mrecordlog::error::{AppendError, CreateQueueError, DeleteQueueError, TruncateError};
use mrecordlog::verif::{self, IoEvent};
use mrecordlog::{MultiRecordLog, PersistAction};
use serde_json::{json, Value};

use crate::script::{digest, plain_bytes, policy_of, splitmix, Payload, Script, Step};

static DIR_COUNTER: AtomicUsize = AtomicUsize::new(0);

pub fn scratch_root() -> PathBuf {
    let base = std::env::var("MRL_SCRATCH").unwrap_or_else(|_| "/dev/shm".to_string());
    PathBuf::from(base).join(format!("mrl-verif-{}", std::process::id()))
}

pub struct TempDir {
    pub path: PathBuf,
}

impl TempDir {
    pub fn new() -> TempDir {
        let n = DIR_COUNTER.fetch_add(1, Ordering::SeqCst);
        let path = scratch_root().join(format!("d{n}"));
        std::fs::create_dir_all(&path).unwrap();
        TempDir { path }
    }
}

impl Drop for TempDir {
    fn drop(&mut self) {
        let _ = std::fs::remove_dir_all(&self.path);
    }
}

pub fn cleanup_scratch() {
    let _ = std::fs::remove_dir_all(scratch_root());
}

/// Builds the bytes of a payload (plain or embedding a forged frame).
pub fn payload_bytes(script: &Script, payload: &Payload) -> Vec<u8> {
    let mut bytes = plain_bytes(payload.seed, payload.len);
    if let Some(embed) = &payload.embed {
        let inner = plain_bytes(embed.pseed, embed.plen);
        let entry = verif::Entry::Append {
            queue: script.queues[embed.q].clone(),
            position: embed.pos,
            records: vec![(embed.pos, inner)],
        };
        let frame = forge_frame(&verif::encode_entry(&entry));
        assert!(embed.at + frame.len() <= bytes.len(), "embed does not fit");
        bytes[embed.at..embed.at + frame.len()].copy_from_slice(&frame);
    }
    bytes
}

/// The byte image of one well-formed `Full` frame carrying `entry`, made by the library's writer.
pub fn forge_frame(entry: &[u8]) -> Vec<u8> {
    let mut writer: verif::RecordWriter<verif::VecBlockWriter> =
        verif::FrameWriter::create(verif::VecBlockWriter::default()).into();
    writer.write_record(verif::RawEntry(entry)).unwrap();
    writer.get_underlying_wrt().verif_written().to_vec()
}

pub fn wal_files_in(dir: &Path) -> Vec<u64> {
    let mut files = Vec::new();
    if let Ok(read_dir) = std::fs::read_dir(dir) {
        for entry in read_dir.flatten() {
            if let Some(name) = entry.file_name().to_str() {
                if name.len() == 24 && name.starts_with("wal-") {
                    if let Ok(number) = name[4..].parse::<u64>() {
                        files.push(number);
                    }
                }
            }
        }
    }
    files.sort();
    files
}

fn rec_json(script: &Script, position: u64, payload: &[u8]) -> Value {
    json!([script.enc(position), digest(payload), payload.len()])
}

/// Everything observable about the log through its public API (plus the H4 projection).
pub fn observe(script: &Script, log: &MultiRecordLog, dir: &Path, probe_seed: u64) -> Value {
    let mut names: Vec<String> = log.list_queues().map(|name| name.to_string()).collect();
    names.sort();
    let summary = log.summary();
    let mut qs = Vec::new();
    let mut unknown = 0;
    for name in &names {
        let idx = script.queue_index(name);
        if idx < 0 {
            unknown += 1;
        }
        let recs: Vec<Value> = log
            .range(name, ..)
            .unwrap()
            .map(|record| rec_json(script, record.position, &record.payload))
            .collect();
        let last = log.last_position(name).unwrap();
        let lastrec = match log.last_record(name).unwrap() {
            Some(record) => rec_json(script, record.position, &record.payload),
            None => json!([-1, -1, -1]),
        };
        let next = match last {
            Some(last) => script.enc(last + 1),
            None => 0,
        };
        let (sum_end, sum_present, sum_file) = match summary.queues.get(name) {
            Some(queue_summary) => (
                script.enc_opt(queue_summary.end),
                1,
                queue_summary.file_number.map(|number| number as i64).unwrap_or(-1),
            ),
            None => (-1, 0, -1),
        };
        qs.push(json!({
            "q": idx, "recs": recs, "next": next, "last": script.enc_opt(last),
            "lastrec": lastrec, "sumend": sum_end, "sumok": sum_present, "sumfile": sum_file,
        }));
    }
    let exists: Vec<i64> = script
        .queues
        .iter()
        .map(|name| log.queue_exists(name) as i64)
        .collect();
    let extra_summary = summary
        .queues
        .keys()
        .filter(|name| !names.contains(name))
        .count();
    // range probes
    let mut rq = Vec::new();
    let mut state = probe_seed;
    if !script.queues.is_empty() {
        for _ in 0..4 {
            let q = (splitmix(&mut state) % script.queues.len() as u64) as usize;
            let name = &script.queues[q];
            let candidates = probe_positions(script, log, name);
            let pick = |state: &mut u64| -> (i64, Bound<u64>, i64) {
                let kind = splitmix(state) % 3;
                let position = candidates[(splitmix(state) % candidates.len() as u64) as usize];
                match kind {
                    0 => (0, Bound::Unbounded, -1),
                    1 => (1, Bound::Included(position), script.enc(position)),
                    _ => (2, Bound::Excluded(position), script.enc(position)),
                }
            };
            let (lo_kind, lo, lo_enc) = pick(&mut state);
            let (hi_kind, hi, hi_enc) = pick(&mut state);
            // an Excluded start bound at u64::MAX is outside the property's domain (< 2^62)
            let result = catch_unwind(AssertUnwindSafe(|| match log.range(name, (lo, hi)) {
                Ok(iter) => Some(
                    iter.map(|record| rec_json(script, record.position, &record.payload))
                        .collect::<Vec<Value>>(),
                ),
                Err(_) => None,
            }));
            let (miss, panicked, res) = match result {
                Ok(Some(res)) => (0, 0, res),
                Ok(None) => (1, 0, Vec::new()),
                Err(_) => (0, 1, Vec::new()),
            };
            rq.push(json!({"q": q, "lo": [lo_kind, lo_enc], "hi": [hi_kind, hi_enc],
                           "miss": miss, "panic": panicked, "res": res}));
        }
    }
    let usage = log.resource_usage();
    let snapshot = log.verif_snapshot();
    let snap: Vec<Value> = snapshot
        .queues
        .iter()
        .map(|queue| {
            let recs: Vec<Value> = queue
                .records
                .iter()
                .map(|(position, len, file)| {
                    json!([script.enc(*position), len, file.map(|f| f as i64).unwrap_or(-1)])
                })
                .collect();
            json!({"q": script.queue_index(&queue.name), "start": script.enc(queue.start_position), "recs": recs})
        })
        .collect();
    let trk: Vec<Value> = snapshot
        .files
        .iter()
        .map(|(number, refs)| json!([number, refs]))
        .collect();
    json!({
        "qs": qs, "unk": unknown, "ex": exists, "sumextra": extra_summary, "rq": rq,
        "mem": [usage.memory_used_bytes, usage.memory_allocated_bytes],
        "disk": usage.disk_used_bytes,
        "files": wal_files_in(dir),
        // real total size of the WAL files in the directory
        "dsum": wal_files_in(dir)
            .iter()
            .map(|number| std::fs::metadata(dir.join(format!("wal-{number:020}"))).map(|meta| meta.len()).unwrap_or(0))
            .sum::<u64>(),
        "w": [snapshot.writer_file, snapshot.writer_offset, snapshot.writer_buffered],
        "trk": trk, "snap": snap,
    })
}

fn probe_positions(script: &Script, log: &MultiRecordLog, name: &str) -> Vec<u64> {
    let mut candidates = vec![0u64];
    if let Ok(iter) = log.range(name, ..) {
        let positions: Vec<u64> = iter.map(|record| record.position).collect();
        if let (Some(first), Some(last)) = (positions.first(), positions.last()) {
            candidates.push(first.saturating_sub(1));
            candidates.push(*first);
            candidates.push(*last);
            candidates.push(last.saturating_add(1));
            candidates.push(positions[positions.len() / 2]);
            // a gap position, if any
            for pair in positions.windows(2) {
                if pair[1] > pair[0].saturating_add(1) {
                    candidates.push(pair[0] + 1);
                    break;
                }
            }
        }
    }
    if let Ok(Some(last)) = log.last_position(name) {
        candidates.push(last);
        candidates.push(last.saturating_add(2));
    }
    candidates.push(*script.anchors.last().unwrap() + 5);
    candidates.retain(|position| script.enc(*position) >= 0);
    candidates
}

pub fn io_json(events: &[IoEvent]) -> Vec<Value> {
    events
        .iter()
        .map(|event| match event {
            IoEvent::ListDir { files } => json!({"e": "LS", "f": -1, "o": -1, "n": files.len()}),
            IoEvent::Create { file } => json!({"e": "CR", "f": file, "o": -1, "n": 0}),
            IoEvent::SetLen { file, len } => json!({"e": "SL", "f": file, "o": -1, "n": len}),
            IoEvent::Open { file } => json!({"e": "OP", "f": file, "o": -1, "n": 0}),
            IoEvent::ReadBlock { file, ok } => {
                json!({"e": "RD", "f": file, "o": -1, "n": *ok as i64})
            }
            IoEvent::Seek { file, offset } => json!({"e": "SK", "f": file, "o": offset, "n": 0}),
            IoEvent::BufWrite {
                file,
                offset,
                bytes,
                buffered_after,
            } => {
                // t: frame type byte for frames (>= 7 bytes), 0 for padding
                let frame_type = if bytes.len() >= 7 { bytes[6] as i64 } else { 0 };
                json!({"e": "W", "f": file, "o": offset, "n": bytes.len(), "t": frame_type, "b": buffered_after})
            }
            IoEvent::Flush { file } => json!({"e": "FL", "f": file, "o": -1, "n": 0}),
            IoEvent::Fdatasync { file } => json!({"e": "FS", "f": file, "o": -1, "n": 0}),
            IoEvent::DirSync => json!({"e": "DS", "f": -1, "o": -1, "n": 0}),
            IoEvent::Unlink { file } => json!({"e": "UL", "f": file, "o": -1, "n": 0}),
        })
        .collect()
}

/// The WAL entries written by a call, reassembled from its buffered writes:
/// [kind, queue index, position, number of records, entry length in bytes].
pub fn entries_json(script: &Script, events: &[IoEvent]) -> Vec<Value> {
    let mut out = Vec::new();
    let mut buffer: Vec<u8> = Vec::new();
    for event in events {
        if let IoEvent::BufWrite { bytes, .. } = event {
            if bytes.len() < 7 {
                continue;
            }
            let frame_type = bytes[6];
            if frame_type == 1 || frame_type == 2 {
                buffer.clear();
            }
            buffer.extend_from_slice(&bytes[7..]);
            if frame_type == 1 || frame_type == 4 {
                let len = buffer.len();
                let line = match verif::decode_entry(&buffer) {
                    Some(verif::Entry::Append { queue, records, .. }) => json!([
                        "append", script.queue_index(&queue),
                        records.first().map(|(pos, _)| script.enc(*pos)).unwrap_or(-1), records.len(), len]),
                    Some(verif::Entry::Truncate { queue, position }) => {
                        json!(["trunc", script.queue_index(&queue), script.enc(position), 0, len])
                    }
                    Some(verif::Entry::Position { queue, position }) => {
                        json!(["pos", script.queue_index(&queue), script.enc(position), 0, len])
                    }
                    Some(verif::Entry::Delete { queue, position }) => {
                        json!(["del", script.queue_index(&queue), script.enc(position), 0, len])
                    }
                    None => json!(["undecodable", -1, -1, 0, len]),
                };
                out.push(line);
            }
        }
    }
    out
}

/// What one step did.
pub struct StepRecord {
    pub idx: usize,
    pub begin: Value,
    pub end: Value,
    pub events: Vec<IoEvent>,
    /// abstract outcome kind: ok / exists / missing / past / io / panic / err
    pub kind: String,
}

pub struct RunRecord {
    pub script: Script,
    pub run_line: Value,
    /// events of the initial `open` of the empty directory
    pub open_events: Vec<IoEvent>,
    pub open_state: Value,
    pub steps: Vec<StepRecord>,
    /// events of the final drop (BufWriter flush is implicit: see disk.rs)
    pub aborted: bool,
}

pub fn open_log(dir: &Path, policy: &str) -> Result<MultiRecordLog, String> {
    let result = catch_unwind(AssertUnwindSafe(|| {
        // the documented default ("flushing after each operation, but not fsyncing") is reached
        // through `open`, every other policy through `open_with_prefs`
        if policy == "always_flush" {
            MultiRecordLog::open(dir)
        } else {
            MultiRecordLog::open_with_prefs(dir, policy_of(policy))
        }
    }));
    match result {
        Ok(Ok(log)) => Ok(log),
        Ok(Err(mrecordlog::error::ReadRecordError::IoError(err))) => Err(format!("io:{err}")),
        Ok(Err(mrecordlog::error::ReadRecordError::Corruption)) => Err("corruption".to_string()),
        Err(_) => Err("panic".to_string()),
    }
}

pub fn begin_json(script: &Script, idx: usize, step: &Step) -> Value {
    let mut value = json!({"ev": "begin", "i": idx, "op": "", "q": -1, "pos": -1, "batch": [], "p": -1, "fsync": 0, "emb": []});
    match step {
        Step::Create { q } => {
            value["op"] = json!("create");
            value["q"] = json!(q);
        }
        Step::Delete { q } => {
            value["op"] = json!("delete");
            value["q"] = json!(q);
        }
        Step::Append { q, pos, batch } => {
            value["op"] = json!("append");
            value["q"] = json!(q);
            value["pos"] = json!(script.enc_opt(*pos));
            let batch: Vec<Value> = batch
                .iter()
                .map(|payload| {
                    let bytes = payload_bytes(script, payload);
                    json!([digest(&bytes), bytes.len()])
                })
                .collect();
            value["batch"] = json!(batch);
            let emb: Vec<Value> = match step {
                Step::Append { batch, .. } => batch
                    .iter()
                    .filter_map(|payload| payload.embed.as_ref())
                    .map(|embed| {
                        let inner = plain_bytes(embed.pseed, embed.plen);
                        json!([embed.q, script.enc(embed.pos), digest(&inner), inner.len()])
                    })
                    .collect(),
                _ => Vec::new(),
            };
            value["emb"] = json!(emb);
        }
        Step::Truncate { q, p } => {
            value["op"] = json!("truncate");
            value["q"] = json!(q);
            value["p"] = json!(script.enc(*p));
        }
        Step::Persist { fsync } => {
            value["op"] = json!("persist");
            value["fsync"] = json!(*fsync as i64);
        }
        Step::Restart => {
            value["op"] = json!("restart");
        }
    }
    value
}

fn res_json(kind: &str, last: i64, evicted: i64, wal: i64) -> Value {
    json!({"k": kind, "last": last, "evicted": evicted, "wal": wal})
}

/// Applies one mutating step to an open log; returns the result record and its kind.
pub fn apply_step(script: &Script, log: &mut MultiRecordLog, step: &Step) -> (Value, String) {
    let outcome = catch_unwind(AssertUnwindSafe(|| match step {
        Step::Create { q } => match log.create_queue(&script.queues[*q]) {
            Ok(outcome) => res_json("ok", -1, 0, outcome.wal_bytes_written as i64),
            Err(CreateQueueError::AlreadyExists) => res_json("exists", -1, 0, 0),
            Err(CreateQueueError::IoError(_)) => res_json("io", -1, 0, 0),
        },
        Step::Delete { q } => match log.delete_queue(&script.queues[*q]) {
            Ok(outcome) => res_json("ok", -1, 0, outcome.wal_bytes_written as i64),
            Err(DeleteQueueError::MissingQueue(_)) => res_json("missing", -1, 0, 0),
            Err(DeleteQueueError::IoError(_)) => res_json("io", -1, 0, 0),
        },
        Step::Append { q, pos, batch } => {
            let payloads: Vec<Vec<u8>> = batch
                .iter()
                .map(|payload| payload_bytes(script, payload))
                .collect();
            // one-record batches go through the single-record entry point half of the time (decided
            // by the payload seed, so that a script always takes the same path)
            let result = if payloads.len() == 1 && batch[0].seed % 2 == 1 {
                log.append_record(&script.queues[*q], *pos, &payloads[0][..])
            } else if (payloads.len() + pos.map(|position| position as usize).unwrap_or(0)) % 2 == 0 {
                // (the batch comes from an iterator that cannot tell its length up front - `from_fn`,
                // size_hint (0, None) - half of the time: an empty batch is then only known to be empty
                // once it was consumed)
                let mut source = payloads.iter();
                log.append_records(&script.queues[*q], *pos, std::iter::from_fn(move || source.next()).map(|payload| &payload[..]))
            } else {
                log.append_records(&script.queues[*q], *pos, payloads.iter().map(|payload| &payload[..]))
            };
            match result {
                Ok(outcome) => res_json(
                    "ok",
                    script.enc_opt(outcome.last_position),
                    0,
                    outcome.wal_bytes_written as i64,
                ),
                Err(AppendError::MissingQueue(_)) => res_json("missing", -1, 0, 0),
                Err(AppendError::Past) => res_json("past", -1, 0, 0),
                Err(AppendError::IoError(_)) => res_json("io", -1, 0, 0),
            }
        }
        Step::Truncate { q, p } => match log.truncate(&script.queues[*q], ..=*p) {
            Ok(outcome) => res_json(
                "ok",
                -1,
                outcome.evicted_records as i64,
                outcome.wal_bytes_written as i64,
            ),
            Err(TruncateError::MissingQueue(_)) => res_json("missing", -1, 0, 0),
            Err(TruncateError::IoError(_)) => res_json("io", -1, 0, 0),
        },
        Step::Persist { fsync } => {
            let action = if *fsync {
                PersistAction::FlushAndFsync
            } else {
                PersistAction::Flush
            };
            match log.persist(action) {
                Ok(()) => res_json("ok", -1, 0, 0),
                Err(_) => res_json("io", -1, 0, 0),
            }
        }
        Step::Restart => unreachable!(),
    }));
    match outcome {
        Ok(value) => {
            let kind = value["k"].as_str().unwrap().to_string();
            (value, kind)
        }
        Err(_) => (res_json("panic", -1, 0, 0), "panic".to_string()),
    }
}

pub fn run_line(script: &Script, run_id: usize) -> Value {
    let qlen: Vec<usize> = script.queues.iter().map(|name| name.len()).collect();
    json!({"ev": "run", "id": run_id, "c14": 0, "prepop": 0, "script": script.name, "policy": script.policy,
           "nq": script.queues.len(), "qlen": qlen})
}

pub struct Runner {
    pub dir: TempDir,
    pub log: Option<MultiRecordLog>,
}

/// Executes the whole script in a fresh directory.
pub fn run_script(script: &Script, run_id: usize) -> (RunRecord, Runner) {
    run_script_in(script, run_id, TempDir::new(), &BTreeMap::new())
}

/// `pre_files`: foreign / pre-existing directory content is set up by the caller before.
pub fn run_script_in(
    script: &Script,
    run_id: usize,
    dir: TempDir,
    _opts: &BTreeMap<String, String>,
) -> (RunRecord, Runner) {
    verif::set_fault_plan(None);
    verif::start_recording();
    let mut record = RunRecord {
        script: script.clone(),
        run_line: run_line(script, run_id),
        open_events: Vec::new(),
        open_state: Value::Null,
        steps: Vec::new(),
        aborted: false,
    };
    let mut runner = Runner { dir, log: None };
    match open_log(&runner.dir.path, &script.policy) {
        Ok(log) => {
            record.open_events = verif::take_events();
            record.open_state = observe(script, &log, &runner.dir.path, 0);
            runner.log = Some(log);
        }
        Err(err) => {
            record.open_events = verif::take_events();
            record.open_state = json!({"err": err});
            record.aborted = true;
            return (record, runner);
        }
    }
    for (idx, step) in script.steps.iter().enumerate() {
        let begin = begin_json(script, idx, step);
        assert!(
            begin["pos"].as_i64().unwrap() >= -1 && begin["p"].as_i64().unwrap() >= -1,
            "script {} step {idx}: position argument cannot be encoded (not within 2^24 of an anchor)",
            script.name
        );
        let probe_seed = (run_id as u64) << 32 | idx as u64;
        if let Step::Restart = step {
            drop(runner.log.take());
            let result = open_log(&runner.dir.path, &script.policy);
            let events = verif::take_events();
            match result {
                Ok(log) => {
                    let st = observe(script, &log, &runner.dir.path, probe_seed);
                    runner.log = Some(log);
                    record.steps.push(StepRecord {
                        idx,
                        begin,
                        end: json!({"ev": "end", "i": idx, "res": res_json("ok", -1, 0, 0), "st": st, "io": io_json(&events), "ent": entries_json(script, &events)}),
                        events,
                        kind: "ok".to_string(),
                    });
                }
                Err(err) => {
                    let kind = if err == "panic" { "panic" } else { "err" };
                    record.steps.push(StepRecord {
                        idx,
                        begin,
                        end: json!({"ev": "end", "i": idx, "res": res_json(kind, -1, 0, 0), "errtext": err, "io": io_json(&events)}),
                        events,
                        kind: kind.to_string(),
                    });
                    record.aborted = true;
                    break;
                }
            }
            continue;
        }
        let log = runner.log.as_mut().unwrap();
        let (res, kind) = apply_step(script, log, step);
        let events = verif::take_events();
        if kind == "panic" || kind == "io" {
            let keep_going = kind == "io" && _opts.contains_key("keep-going");
            record.steps.push(StepRecord {
                idx,
                begin,
                end: json!({"ev": "end", "i": idx, "res": res, "io": io_json(&events)}),
                events,
                kind,
            });
            record.aborted = true;
            if keep_going {
                // (histories in hostile directories: what the library does when the caller retries
                // after an I/O error matters too; the model-based monitors stop judging at the
                // first failed call, the directory-level ones judge the whole history)
                continue;
            }
            break;
        }
        let st = observe(script, log, &runner.dir.path, probe_seed);
        record.steps.push(StepRecord {
            idx,
            begin,
            end: json!({"ev": "end", "i": idx, "res": res, "st": st, "io": io_json(&events), "ent": entries_json(script, &events)}),
            events,
            kind,
        });
    }
    verif::stop_recording();
    (record, runner)
}
