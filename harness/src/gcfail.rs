//! C15 when the GC pass of a call meets an I/O error: the oldest WAL file is removed from the
//! directory behind the library's back, then a truncate / delete_queue releases it - the GC pass
//! records the positions of the empty queues (bytes appended to the WAL), flushes, and fails at
//! the unlink.  A call that fails reports no byte count and claims nothing; a call that returns
//! Ok must report exactly the bytes it appended, GC entries included.
use std::path::PathBuf;
use std::sync::Arc;

use mrecordlog::verif::{self, IoEvent};
use serde_json::json;

use crate::exec::{apply_step, open_log, wal_files_in, TempDir};
use crate::gen::Rng;
use crate::script::{Payload, Script, Step};
use crate::{parallel, write_lines, Args, Output};

pub fn cmd(args: &Args) {
    let out_dir = PathBuf::from(args.get("out", "/dev/shm/mrl-out"));
    let output = Arc::new(Output::new(&out_dir));
    let count = args.num("cases", 24) as usize;
    let seed = args.num("seed", 1);
    let output_in = output.clone();
    parallel(count, args.num("jobs", 8) as usize, &out_dir, "trace", move |job, file| {
        let mut rng = Rng(seed.wrapping_mul(0x6CFA_11).wrapping_add(job as u64));
        let idle = 1 + rng.below(3) as usize;
        let mut queues = vec!["busy".to_string()];
        for idx in 0..idle {
            queues.push(format!("idle-{idx}-{}", "n".repeat(rng.below(40) as usize)));
        }
        let script = Script {
            name: format!("gcfail-{job}"),
            policy: ["always_flush", "always_fsync", "do_nothing"][rng.below(3) as usize].to_string(),
            queues,
            anchors: crate::gen::anchors(),
            steps: Vec::new(),
            expect: None,
        };
        let dir = TempDir::new();
        let mut lines = vec![json!({"ev": "run", "id": job, "c14": 0, "prepop": 1, "script": script.name,
                                    "policy": script.policy, "nq": script.queues.len(), "qlen": script.queues.iter().map(|name| name.len()).collect::<Vec<_>>()})];
        let Ok(mut log) = open_log(&dir.path, &script.policy) else { return };
        for q in 0..script.queues.len() {
            apply_step(&script, &mut log, &Step::Create { q });
        }
        let mut payload_seed = (job as u64) << 20;
        // fill until the writer has left the first file(s) behind
        let files_wanted = 1 + rng.below(2);
        for _ in 0..40 {
            if log.verif_snapshot().writer_file >= files_wanted {
                break;
            }
            payload_seed += 1;
            let len = [30_000usize, 12_000, 50_000][rng.below(3) as usize];
            apply_step(&script, &mut log, &Step::Append { q: 0, pos: None, batch: vec![Payload { seed: payload_seed, len, embed: None }] });
        }
        let on_disk = wal_files_in(&dir.path);
        if on_disk.len() < 2 {
            return;
        }
        // the oldest file disappears behind the library's back
        let _ = std::fs::remove_file(dir.path.join(format!("wal-{:020}", on_disk[0])));
        let step = if rng.chance(70) {
            let last = log.last_position(&script.queues[0]).ok().flatten().unwrap_or(0);
            Step::Truncate { q: 0, p: last }
        } else {
            Step::Delete { q: 0 }
        };
        verif::start_recording();
        let (res, kind) = apply_step(&script, &mut log, &step);
        let events = verif::take_events();
        verif::stop_recording();
        let written: usize = events
            .iter()
            .map(|event| if let IoEvent::BufWrite { bytes, .. } = event { bytes.len() } else { 0 })
            .sum();
        output_in.add("gcfail_cases", 1);
        output_in.add(&format!("gcfail_{kind}"), 1);
        output_in.add("runs", 1);
        lines.push(json!({"ev": "gcfail", "op": if matches!(step, Step::Delete { .. }) { "delete" } else { "truncate" },
                          "k": kind, "reported": res["wal"], "written": written}));
        std::mem::forget(log);
        write_lines(file, &lines);
    });
    output.finish(json!({"cmd": "gcfail"}));
    crate::exec::cleanup_scratch();
}
