//! Validation of the crash-image builder against real process deaths (machinery self-test, not
//! a property check).
//!
//! Every crash verdict of C02 / C03 / C04 / C06 / C12 rests on `disk::BufModel` + `disk::Image`:
//! the directory content after a process crash is *computed* from the recorded I/O events.  Here
//! the same computation is compared with what a real `SIGKILL` leaves behind: a child process runs
//! the script and kills itself (kill -9) from inside the event hook right after its k-th
//! file-system effect; the parent rebuilds the image from the events the child logged (the child's
//! own events: HashMap order differs between processes) and compares it byte for byte with the
//! directory the dead child left.
use std::collections::BTreeMap;
use std::io::Write;
use std::path::{Path, PathBuf};
use std::sync::Arc;

use mrecordlog::verif::{self, IoEvent};
use serde_json::json;

use crate::disk::{BufModel, Image};
use crate::exec::{apply_step, open_log, run_script, scratch_root};
use crate::script::{Script, Step};
use crate::{load_scripts, parallel, write_lines, Args, Output};

fn hex(bytes: &[u8]) -> String {
    let mut out = String::with_capacity(bytes.len() * 2);
    for byte in bytes {
        out.push_str(&format!("{byte:02x}"));
    }
    out
}

fn unhex(text: &str) -> Vec<u8> {
    (0..text.len() / 2)
        .map(|idx| u8::from_str_radix(&text[2 * idx..2 * idx + 2], 16).unwrap())
        .collect()
}

fn to_line(event: &IoEvent) -> String {
    match event {
        IoEvent::ListDir { files } => {
            format!("LS {}", files.iter().map(|file| file.to_string()).collect::<Vec<_>>().join(","))
        }
        IoEvent::Create { file } => format!("CR {file}"),
        IoEvent::SetLen { file, len } => format!("SL {file} {len}"),
        IoEvent::Open { file } => format!("OP {file}"),
        IoEvent::ReadBlock { file, ok } => format!("RD {file} {}", *ok as u8),
        IoEvent::Seek { file, offset } => format!("SK {file} {offset}"),
        IoEvent::BufWrite { file, offset, bytes, buffered_after } => {
            format!("BW {file} {offset} {buffered_after} {}", hex(bytes))
        }
        IoEvent::Flush { file } => format!("FL {file}"),
        IoEvent::Fdatasync { file } => format!("FS {file}"),
        IoEvent::DirSync => "DS".to_string(),
        IoEvent::Unlink { file } => format!("UL {file}"),
    }
}

fn from_line(line: &str) -> Option<IoEvent> {
    let parts: Vec<&str> = line.split(' ').collect();
    let num = |idx: usize| parts.get(idx).and_then(|text| text.parse::<u64>().ok());
    Some(match parts[0] {
        "LS" => IoEvent::ListDir {
            files: parts
                .get(1)
                .map(|list| list.split(',').filter_map(|text| text.parse().ok()).collect())
                .unwrap_or_default(),
        },
        "CR" => IoEvent::Create { file: num(1)? },
        "SL" => IoEvent::SetLen { file: num(1)?, len: num(2)? },
        "OP" => IoEvent::Open { file: num(1)? },
        "RD" => IoEvent::ReadBlock { file: num(1)?, ok: num(2)? == 1 },
        "SK" => IoEvent::Seek { file: num(1)?, offset: num(2)? },
        "BW" => IoEvent::BufWrite {
            file: num(1)?,
            offset: num(2)?,
            buffered_after: num(3)? as usize,
            bytes: unhex(parts.get(4).copied().unwrap_or("")),
        },
        "FL" => IoEvent::Flush { file: num(1)? },
        "FS" => IoEvent::Fdatasync { file: num(1)? },
        "DS" => IoEvent::DirSync,
        "UL" => IoEvent::Unlink { file: num(1)? },
        _ => return None,
    })
}

/// The child: runs the script in `--dir`, logs every event (and a marker before each restart) to
/// `--log`, and sends itself SIGKILL right after event number `--kill-at`.
pub fn child(args: &Args) {
    let script: Script =
        serde_json::from_slice(&std::fs::read(args.get("script-file", "")).expect("script file")).expect("script json");
    let dir = PathBuf::from(args.get("dir", ""));
    let kill_at = args.num("kill-at", 0) as usize;
    let log_path = args.get("log", "");
    let mut log_for_hook = std::fs::OpenOptions::new().create(true).append(true).open(&log_path).unwrap();
    let mut log_for_steps = log_for_hook.try_clone().unwrap();
    verif::set_event_observer(Some(Box::new(move |ordinal, event| {
        let mut line = to_line(event);
        line.push('\n');
        log_for_hook.write_all(line.as_bytes()).unwrap();
        if ordinal == kill_at {
            // a real SIGKILL: no destructor, no atexit handler, no buffered writer flushed
            let pid = std::process::id().to_string();
            let _ = std::process::Command::new("kill").args(["-9", &pid]).status();
            loop {
                std::thread::sleep(std::time::Duration::from_secs(1));
            }
        }
    })));
    let mut log = match open_log(&dir, &script.policy) {
        Ok(log) => Some(log),
        Err(_) => std::process::exit(3),
    };
    for step in &script.steps {
        if let Step::Restart = step {
            log_for_steps.write_all(b"RESTART\n").unwrap();
            drop(log.take());
            match open_log(&dir, &script.policy) {
                Ok(reopened) => log = Some(reopened),
                Err(_) => std::process::exit(3),
            }
        } else {
            let (_res, kind) = apply_step(&script, log.as_mut().unwrap(), step);
            if kind == "panic" || kind == "io" {
                std::process::exit(3);
            }
        }
    }
    // the kill point was not reached: leave without running destructors either
    std::process::exit(4);
}

fn image_from_log(log_path: &Path, sabotage: bool) -> (BTreeMap<u64, Vec<u8>>, usize) {
    let text = std::fs::read_to_string(log_path).unwrap_or_default();
    let mut buf = BufModel::default();
    let mut effects = Vec::new();
    let mut events = 0;
    for line in text.lines() {
        if line == "RESTART" {
            // dropping the log flushes its BufWriter without any event
            buf.drop_flush(0, &mut effects);
            continue;
        }
        if let Some(mut event) = from_line(line) {
            events += 1;
            if sabotage {
                // self-test of this self-test: pretend the BufWriter never holds anything back
                if let IoEvent::BufWrite { buffered_after, .. } = &mut event {
                    *buffered_after = 0;
                }
            }
            buf.feed(&event, 0, &mut effects);
        }
    }
    let mut image = Image::default();
    for tagged in &effects {
        image.apply(&tagged.eff, None);
    }
    let files = image.process_image().into_iter().map(|(number, img)| (number, img.data)).collect();
    (files, events)
}

fn describe_difference(want: &BTreeMap<u64, Vec<u8>>, got: &BTreeMap<u64, Vec<u8>>) -> String {
    let want_files: Vec<u64> = want.keys().copied().collect();
    let got_files: Vec<u64> = got.keys().copied().collect();
    if want_files != got_files {
        return format!("file sets differ: computed {want_files:?}, on disk {got_files:?}");
    }
    for (number, data) in want {
        let real = &got[number];
        if data.len() != real.len() {
            return format!("file {number}: computed length {}, on disk {}", data.len(), real.len());
        }
        if let Some(pos) = data.iter().zip(real.iter()).position(|(a, b)| a != b) {
            return format!("file {number}: first difference at byte {pos}");
        }
    }
    String::new()
}

pub fn cmd(args: &Args) {
    let scripts = Arc::new(load_scripts(args));
    let out_dir = PathBuf::from(args.get("out", "/dev/shm/mrl-out"));
    let output = Arc::new(Output::new(&out_dir));
    let max_points = args.num("max-points", 40) as usize;
    let sabotage = args.flag("sabotage");
    let exe = std::env::current_exe().unwrap();
    let n = scripts.len();
    let output_in = output.clone();
    parallel(n, args.num("jobs", 8) as usize, &out_dir, "kill", move |job, file| {
        let script = &scripts[job];
        // an in-process run: how many events there are, and of which kinds
        let (record, runner) = run_script(script, job);
        drop(runner);
        verif::stop_recording();
        let mut kinds: Vec<&'static str> = Vec::new();
        let mut all_events: Vec<&IoEvent> = record.open_events.iter().collect();
        for step in &record.steps {
            all_events.extend(step.events.iter());
        }
        for event in &all_events {
            kinds.push(match event {
                IoEvent::BufWrite { .. } => "write",
                IoEvent::Flush { .. } => "flush",
                IoEvent::Create { .. } | IoEvent::SetLen { .. } => "create",
                IoEvent::Unlink { .. } => "unlink",
                IoEvent::Fdatasync { .. } | IoEvent::DirSync => "sync",
                _ => "read",
            });
        }
        let total = kinds.len();
        // kill points: every event next to a create / unlink / flush, plus a stride over the rest
        let mut points: Vec<usize> = Vec::new();
        let stride = (total / max_points.max(1)).max(1);
        for ordinal in 1..=total {
            let kind = kinds[ordinal - 1];
            let structural = matches!(kind, "create" | "unlink");
            if structural || ordinal % stride == 0 {
                points.push(ordinal);
            }
        }
        if points.len() > 3 * max_points {
            let keep_every = points.len() / (3 * max_points) + 1;
            points = points.into_iter().step_by(keep_every).collect();
        }
        let work = scratch_root().join(format!("kill-{job}"));
        std::fs::create_dir_all(&work).unwrap();
        let script_file = work.join("script.json");
        std::fs::write(&script_file, serde_json::to_vec(script).unwrap()).unwrap();
        let mut lines = Vec::new();
        for kill_at in points {
            let dir = work.join(format!("d{kill_at}"));
            std::fs::create_dir_all(&dir).unwrap();
            let log_path = work.join(format!("log{kill_at}"));
            let _ = std::fs::remove_file(&log_path);
            let status = std::process::Command::new(&exe)
                .args([
                    "killchild",
                    "--script-file",
                    script_file.to_str().unwrap(),
                    "--dir",
                    dir.to_str().unwrap(),
                    "--kill-at",
                    &kill_at.to_string(),
                    "--log",
                    log_path.to_str().unwrap(),
                ])
                .stdout(std::process::Stdio::null())
                .stderr(std::process::Stdio::null())
                .status()
                .unwrap();
            use std::os::unix::process::ExitStatusExt;
            let killed = status.signal() == Some(9);
            output_in.add("kill_children", 1);
            if !killed {
                // the child's own run was shorter than ours (HashMap order) or failed: not a data point
                output_in.add("kill_not_reached", 1);
                let _ = std::fs::remove_dir_all(&dir);
                continue;
            }
            let (computed, events) = image_from_log(&log_path, sabotage);
            let on_disk: BTreeMap<u64, Vec<u8>> =
                Image::from_dir(&dir).files.into_iter().map(|(number, img)| (number, img.data)).collect();
            let difference = describe_difference(&computed, &on_disk);
            output_in.add("kill_points", 1);
            output_in.add(&format!("kill_after_{}", kinds.get(kill_at - 1).copied().unwrap_or("?")), 1);
            if !difference.is_empty() {
                output_in.add("kill_mismatches", 1);
            }
            lines.push(json!({"ev": "kill", "script": script.name, "k": kill_at, "events": events,
                              "files": on_disk.len(), "ok": difference.is_empty() as i64, "why": difference}));
            let _ = std::fs::remove_dir_all(&dir);
            let _ = std::fs::remove_file(&log_path);
        }
        let _ = std::fs::remove_dir_all(&work);
        output_in.add("runs", 1);
        write_lines(file, &lines);
    });
    output.finish(json!({"cmd": "sigkill"}));
    crate::exec::cleanup_scratch();
}
