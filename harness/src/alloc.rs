//! Counting allocator: peak bytes allocated on the current thread since the last reset.
use std::alloc::{GlobalAlloc, Layout, System};
use std::cell::Cell;

pub struct Counting;

thread_local! {
    static CURRENT: Cell<isize> = const { Cell::new(0) };
    static PEAK: Cell<isize> = const { Cell::new(0) };
}

unsafe impl GlobalAlloc for Counting {
    unsafe fn alloc(&self, layout: Layout) -> *mut u8 {
        let _ = CURRENT.try_with(|current| {
            let now = current.get() + layout.size() as isize;
            current.set(now);
            let _ = PEAK.try_with(|peak| {
                if now > peak.get() {
                    peak.set(now);
                }
            });
        });
        System.alloc(layout)
    }

    unsafe fn dealloc(&self, ptr: *mut u8, layout: Layout) {
        let _ = CURRENT.try_with(|current| current.set(current.get() - layout.size() as isize));
        System.dealloc(ptr, layout)
    }
}

pub fn reset_peak() {
    CURRENT.with(|current| current.set(0));
    PEAK.with(|peak| peak.set(0));
}

pub fn peak() -> usize {
    PEAK.with(|peak| peak.get().max(0) as usize)
}
