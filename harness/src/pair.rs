//! C18 (metamorphic, no reference model): a history and its projection onto one queue, with
//! restarts at corresponding points, must agree on everything that queue returns.  Crash variant:
//! process-crash images of the full history between calls and inside calls addressed to OTHER
//! queues recover the queue exactly as the projected history has it.
use std::path::PathBuf;
use std::sync::Arc;
use std::time::Duration;

use serde_json::{json, Value};

use crate::crash::{os_effects, recover, INIT_STEP};
use crate::disk::{Image, OsEff};
use crate::exec::{run_script, RunRecord};
use crate::script::{Script, Step};
use crate::{load_scripts, parallel, write_lines, Args, Output};

fn queue_state(st: &Value, q: usize) -> Value {
    if let Some(qs) = st.get("qs").and_then(|qs| qs.as_array()) {
        for entry in qs {
            if entry["q"].as_i64() == Some(q as i64) {
                return json!({"a": 1, "recs": entry["recs"], "next": entry["next"], "last": entry["last"],
                              "lastrec": entry["lastrec"]});
            }
        }
    }
    json!({"a": 0, "recs": [], "next": -1, "last": -1, "lastrec": [-1, -1, -1]})
}

/// Observations of queue q: one per step addressed to q and per restart.
fn observations(record: &RunRecord, q: usize) -> Vec<Value> {
    let mut out = Vec::new();
    for step in &record.steps {
        let script_step = &record.script.steps[step.idx];
        let relevant = script_step.queue() == Some(q) || matches!(script_step, Step::Restart);
        if !relevant {
            continue;
        }
        let res = &step.end["res"];
        let st = step.end.get("st").cloned().unwrap_or(Value::Null);
        out.push(json!({
            "op": step.begin["op"], "k": res["k"], "last": res["last"], "evicted": res["evicted"],
            "qs": queue_state(&st, q),
        }));
    }
    out
}

fn project(script: &Script, q: usize) -> Script {
    let steps: Vec<Step> = script
        .steps
        .iter()
        .filter(|step| step.queue() == Some(q) || matches!(step, Step::Restart | Step::Persist { .. }))
        .cloned()
        .collect();
    Script {
        name: format!("{}#q{q}", script.name),
        policy: script.policy.clone(),
        queues: script.queues.clone(),
        anchors: script.anchors.clone(),
        steps,
        expect: None,
    }
}

pub fn cmd(args: &Args) {
    let scripts = Arc::new(load_scripts(args));
    let out_dir = PathBuf::from(args.get("out", "/dev/shm/mrl-out"));
    let output = Arc::new(Output::new(&out_dir));
    let with_crash = args.flag("crash");
    let deadline = Duration::from_secs(args.num("deadline", 10));
    let max_points = args.num("max-points", 60) as usize;
    let n = scripts.len();
    let output_in = output.clone();
    parallel(n, args.num("jobs", 8) as usize, &out_dir, "trace", move |job, file| {
        let script = &scripts[job];
        std::fs::write(
            output_in.dir.join("scripts").join(format!("{}.json", script.name)),
            serde_json::to_vec(script).unwrap(),
        )
        .unwrap();
        let (full, runner) = run_script(script, job);
        drop(runner);
        output_in.add("runs", 1);
        output_in.add("calls", full.steps.len() as u64);
        let mut lines = vec![full.run_line.clone()];
        if full.aborted {
            lines.push(json!({"ev": "pair", "q": -1, "full": [], "proj": [], "aborted": 1}));
            write_lines(file, &lines);
            return;
        }
        let script_arc = Arc::new(script.clone());
        let effects = os_effects(&full, false);
        for q in 0..script.queues.len() {
            if !script.steps.iter().any(|step| step.queue() == Some(q)) {
                continue;
            }
            let projected_script = project(script, q);
            let (proj, proj_runner) = run_script(&projected_script, job);
            drop(proj_runner);
            let full_obs = observations(&full, q);
            let proj_obs = observations(&proj, q);
            output_in.add("pairs", 1);
            output_in.add("pair_observations", full_obs.len() as u64);
            let others = script
                .steps
                .iter()
                .filter(|step| step.queue().is_some() && step.queue() != Some(q))
                .count();
            if others > 0 {
                output_in.add("pairs_with_other_traffic", 1);
            }
            output_in.sample(json!({"script": script.name, "q": q, "observations": full_obs.len(),
                                   "calls_on_other_queues": others}));
            lines.push(json!({"ev": "pair", "q": q, "full": full_obs, "proj": proj_obs,
                              "aborted": proj.aborted as i64}));
            if with_crash && script.policy.starts_with("always") && !proj.aborted {
                // projected state of q after each full-run step index
                let mut want_after: Vec<Value> = Vec::new();
                let mut current = json!({"a": 0, "recs": [], "next": -1, "last": -1, "lastrec": [-1, -1, -1]});
                let mut proj_iter = proj.steps.iter();
                for step in &script.steps {
                    let in_projection = step.queue() == Some(q) || matches!(step, Step::Restart | Step::Persist { .. });
                    if in_projection {
                        if let Some(proj_step) = proj_iter.next() {
                            if let Some(st) = proj_step.end.get("st") {
                                current = queue_state(st, q);
                            }
                        }
                    }
                    want_after.push(current.clone());
                }
                // crash points: prefixes of the OS-level effects whose in-flight call (if any) is
                // addressed to another queue
                let mut image = Image::default();
                let stride = (effects.len() / max_points.max(1)).max(1);
                for k in 0..=effects.len() {
                    if k > 0 {
                        image.apply(&effects[k - 1].eff, None);
                    }
                    if k % stride != 0 && k != effects.len() {
                        continue;
                    }
                    let prev = if k > 0 { effects[k - 1].step } else { INIT_STEP };
                    let next = if k < effects.len() { effects[k].step } else { usize::MAX - 1 };
                    let incall = prev == next;
                    if prev == INIT_STEP {
                        continue;
                    }
                    if incall {
                        let addressed = script.steps[prev].queue();
                        if addressed == Some(q) || addressed.is_none() {
                            continue;
                        }
                        // a write of another queue's call is not torn here; effects only
                        if let OsEff::Write { .. } = effects[k].eff {}
                    }
                    // the state q must have: after the last completed step (in-flight steps on
                    // other queues do not count)
                    let completed = if incall { prev.checked_sub(1) } else { Some(prev) };
                    let want = match completed {
                        Some(idx) => want_after[idx].clone(),
                        None => json!({"a": 0, "recs": [], "next": -1, "last": -1, "lastrec": [-1, -1, -1]}),
                    };
                    let recovery = recover(&script_arc, &image.process_image(), false, k as u64, deadline);
                    output_in.add("pair_crash_points", 1);
                    // (the Json module of TLC rejects null: an absent state is an object with a = -1)
                    let got = if recovery.out == "ok" {
                        queue_state(&recovery.st, q)
                    } else {
                        json!({"a": -1, "recs": [], "next": -1, "last": -1, "lastrec": [-1, -1, -1]})
                    };
                    lines.push(json!({"ev": "pairc", "q": q, "i": prev, "incall": incall as i64, "out": recovery.out,
                                      "got": got, "want": want}));
                }
            }
        }
        output_in.add("trace_lines", lines.len() as u64);
        write_lines(file, &lines);
    });
    output.finish(json!({"cmd": "pair"}));
    crate::exec::cleanup_scratch();
}
