//! C06 after a TRANSIENT failure to create the next WAL file: a foreign directory sits at the
//! name of the next file when the writer rolls over (the call fails), is removed, and the history
//! goes on.  Whatever the library does afterwards (keep failing until reopened, or recover), after
//! every call that returns Ok the C06 facts must hold: the directory holds exactly the files the
//! log tracks, they form a contiguous run ending at the writer's file, and disk usage matches.
use std::path::PathBuf;
use std::sync::Arc;

use serde_json::{json, Value};

use crate::exec::{apply_step, open_log, wal_files_in, TempDir};
use crate::gen::Rng;
use crate::script::{Payload, Script, Step};
use crate::{parallel, write_lines, Args, Output};

fn facts(log: &mrecordlog::MultiRecordLog, dir: &std::path::Path) -> Value {
    let snapshot = log.verif_snapshot();
    let tracked: Vec<u64> = snapshot.files.iter().map(|(number, _)| *number).collect();
    json!({"disk_files": wal_files_in(dir), "tracked": tracked, "w": snapshot.writer_file,
           "disk_used": log.resource_usage().disk_used_bytes})
}

pub fn cmd(args: &Args) {
    let out_dir = PathBuf::from(args.get("out", "/dev/shm/mrl-out"));
    let output = Arc::new(Output::new(&out_dir));
    let count = args.num("cases", 24) as usize;
    let seed = args.num("seed", 1);
    let output_in = output.clone();
    parallel(count, args.num("jobs", 8) as usize, &out_dir, "trace", move |job, file| {
        let mut rng = Rng(seed.wrapping_mul(0x0B57_AC1E).wrapping_add(job as u64));
        let script = Script {
            name: format!("obstacle-{job}"),
            policy: "always_flush".to_string(),
            queues: vec!["a".to_string(), "b".to_string()],
            anchors: crate::gen::anchors(),
            steps: Vec::new(),
            expect: None,
        };
        let dir = TempDir::new();
        let mut lines = vec![json!({"ev": "run", "id": job, "c14": 0, "prepop": 1, "script": script.name,
                                    "policy": "always_flush", "nq": 2, "qlen": [1, 1]})];
        let mut log = match open_log(&dir.path, &script.policy) {
            Ok(log) => log,
            Err(_) => return,
        };
        let mut payload_seed = (job as u64) << 20;
        let mut do_step = |log: &mut mrecordlog::MultiRecordLog, step: Step| -> String {
            let (_res, kind) = apply_step(&script, log, &step);
            kind
        };
        do_step(&mut log, Step::Create { q: 0 });
        do_step(&mut log, Step::Create { q: 1 });
        // how many roll-overs happen before the obstacle is planted
        let rolls_before = rng.below(3);
        let mut checks: Vec<Value> = Vec::new();
        let mut failed = false;
        let mut planted: Option<PathBuf> = None;
        let mut after_failure_ok = 0;
        for round in 0..40 {
            let snapshot = log.verif_snapshot();
            if planted.is_none() && !failed && snapshot.writer_file >= rolls_before {
                let next = dir.path.join(format!("wal-{:020}", snapshot.writer_file + 1));
                if std::fs::create_dir(&next).is_ok() {
                    planted = Some(next);
                }
            }
            payload_seed += 1;
            let q = (round % 2) as usize;
            let len = [20_000usize, 40_000, 9_000][rng.below(3) as usize];
            let kind = do_step(&mut log, Step::Append { q, pos: None, batch: vec![Payload { seed: payload_seed, len, embed: None }] });
            if kind == "io" && !failed {
                failed = true;
                // the obstacle goes away: the failure was transient
                if let Some(path) = planted.take() {
                    let _ = std::fs::remove_dir(&path);
                }
                continue;
            }
            if kind == "panic" {
                break;
            }
            if failed && kind == "ok" {
                after_failure_ok += 1;
                checks.push(json!({"after": "append", "f": facts(&log, &dir.path)}));
            }
            if failed && round % 5 == 4 {
                if let Ok(Some(last)) = log.last_position(&script.queues[q]) {
                    let kind = do_step(&mut log, Step::Truncate { q, p: last });
                    if kind == "ok" {
                        after_failure_ok += 1;
                        checks.push(json!({"after": "truncate", "f": facts(&log, &dir.path)}));
                    }
                }
            }
            if failed && round % 11 == 10 {
                drop(log);
                log = match open_log(&dir.path, &script.policy) {
                    Ok(log) => log,
                    Err(_) => break,
                };
                checks.push(json!({"after": "open", "f": facts(&log, &dir.path)}));
            }
        }
        output_in.add("obstacle_cases", 1);
        output_in.add("obstacle_checks", checks.len() as u64);
        output_in.add("obstacle_ok_calls_between_failure_and_reopen", after_failure_ok);
        if failed {
            output_in.add("obstacle_failures_provoked", 1);
        }
        output_in.add("runs", 1);
        lines.push(json!({"ev": "obstacle", "failed": failed as i64, "checks": checks}));
        write_lines(file, &lines);
    });
    output.finish(json!({"cmd": "obstacle"}));
    crate::exec::cleanup_scratch();
}
