//! Seeded random script generator. It keeps a light model of the queues only to *aim* inputs
//! (explicit positions around `next`, truncations around the retained range); it is not an oracle.
use crate::script::{splitmix, Payload, Script, Step, ANCHOR_SPAN};

pub struct Rng(pub u64);

impl Rng {
    pub fn next(&mut self) -> u64 {
        splitmix(&mut self.0)
    }
    pub fn below(&mut self, n: u64) -> u64 {
        if n == 0 {
            0
        } else {
            self.next() % n
        }
    }
    pub fn chance(&mut self, percent: u64) -> bool {
        self.below(100) < percent
    }
    pub fn pick<'a, T>(&mut self, items: &'a [T]) -> &'a T {
        &items[self.below(items.len() as u64) as usize]
    }
}

#[derive(Clone, Debug)]
pub struct Profile {
    pub name: &'static str,
    pub queues: usize,
    pub steps: usize,
    /// weights: create, delete, append, truncate, persist, restart
    pub weights: [u64; 6],
    /// payload length classes with weights: (max_len, weight); length drawn uniformly below max
    pub lens: Vec<(usize, u64)>,
    pub max_batch: u64,
    pub explicit_pos_percent: u64,
    pub reject_percent: u64,
    pub long_names: bool,
}

pub fn profile(name: &str) -> Profile {
    match name {
        "small" => Profile {
            name: "small",
            queues: 3,
            steps: 14,
            weights: [10, 6, 45, 20, 5, 8],
            lens: vec![(1, 10), (40, 60), (3000, 20), (40_000, 10)],
            max_batch: 4,
            explicit_pos_percent: 30,
            reject_percent: 12,
            long_names: false,
        },
        "gc-heavy" => Profile {
            name: "gc-heavy",
            queues: 4,
            steps: 40,
            weights: [6, 3, 50, 30, 3, 8],
            lens: vec![(1, 8), (40, 12), (20_000, 33), (60_000, 33), (140_000, 14)],
            max_batch: 3,
            explicit_pos_percent: 10,
            reject_percent: 3,
            long_names: false,
        },
        "big" => Profile {
            name: "big",
            queues: 2,
            steps: 16,
            weights: [8, 3, 55, 20, 4, 10],
            lens: vec![(1, 6), (40, 16), (33_000, 30), (140_000, 28), (300_000, 20)],
            max_batch: 3,
            explicit_pos_percent: 10,
            reject_percent: 3,
            long_names: false,
        },
        "many-queues" => Profile {
            name: "many-queues",
            queues: 12,
            steps: 60,
            weights: [14, 6, 45, 25, 3, 7],
            lens: vec![(1, 5), (60, 35), (9_000, 40), (40_000, 20)],
            max_batch: 3,
            explicit_pos_percent: 15,
            reject_percent: 5,
            long_names: false,
        },
        "positions" => Profile {
            name: "positions",
            queues: 3,
            steps: 30,
            weights: [10, 8, 45, 25, 4, 8],
            lens: vec![(1, 20), (30, 70), (2000, 10)],
            max_batch: 5,
            explicit_pos_percent: 70,
            reject_percent: 15,
            long_names: false,
        },
        "names" => Profile {
            name: "names",
            queues: 5,
            steps: 18,
            weights: [14, 8, 45, 18, 5, 10],
            lens: vec![(1, 10), (50, 70), (5000, 20)],
            max_batch: 3,
            explicit_pos_percent: 20,
            reject_percent: 10,
            long_names: true,
        },
        "wrap" => Profile {
            name: "wrap",
            queues: 1,
            steps: 80,
            weights: [2, 0, 60, 36, 0, 2],
            lens: vec![(7, 10), (13, 30), (101, 40), (1021, 20)],
            max_batch: 4,
            explicit_pos_percent: 5,
            reject_percent: 0,
            long_names: false,
        },
        "batch" => Profile {
            name: "batch",
            queues: 2,
            steps: 12,
            weights: [8, 2, 60, 15, 5, 10],
            lens: vec![(1, 10), (100, 30), (20_000, 30), (70_000, 30)],
            max_batch: 8,
            explicit_pos_percent: 10,
            reject_percent: 3,
            long_names: false,
        },
        "embed" => Profile {
            name: "embed",
            queues: 2,
            steps: 10,
            weights: [12, 2, 60, 14, 2, 10],
            lens: vec![(400, 100)],
            max_batch: 2,
            explicit_pos_percent: 5,
            reject_percent: 2,
            long_names: false,
        },
        "recreate" => Profile {
            name: "recreate",
            queues: 2,
            steps: 22,
            weights: [24, 20, 36, 12, 2, 6],
            lens: vec![(1, 10), (40, 60), (9000, 30)],
            max_batch: 3,
            explicit_pos_percent: 15,
            reject_percent: 2,
            long_names: false,
        },
        "restarts" => Profile {
            name: "restarts",
            queues: 3,
            steps: 24,
            weights: [10, 6, 40, 18, 3, 23],
            lens: vec![(1, 10), (40, 40), (9000, 30), (50_000, 20)],
            max_batch: 4,
            explicit_pos_percent: 25,
            reject_percent: 5,
            long_names: false,
        },
        "rejects" => Profile {
            name: "rejects",
            queues: 4,
            steps: 30,
            weights: [14, 10, 45, 16, 3, 12],
            lens: vec![(1, 20), (40, 50), (9000, 20), (40_000, 10)],
            max_batch: 3,
            explicit_pos_percent: 65,
            reject_percent: 45,
            long_names: false,
        },
        "persist" => Profile {
            name: "persist",
            queues: 3,
            steps: 24,
            weights: [10, 5, 42, 18, 18, 7],
            lens: vec![(40, 40), (9000, 30), (50_000, 30)],
            max_batch: 3,
            explicit_pos_percent: 10,
            reject_percent: 3,
            long_names: false,
        },
        "boundary" => Profile {
            name: "boundary",
            queues: 2,
            steps: 30,
            weights: [6, 2, 62, 18, 2, 10],
            // replaced by the boundary menu in `generate`
            lens: vec![(40, 100)],
            max_batch: 2,
            explicit_pos_percent: 5,
            reject_percent: 2,
            long_names: false,
        },
        "drain" => Profile {
            name: "drain",
            queues: 3,
            steps: 20,
            weights: [12, 4, 55, 22, 2, 5],
            lens: vec![(1, 10), (40, 40), (9000, 30), (70_000, 20)],
            max_batch: 4,
            explicit_pos_percent: 10,
            reject_percent: 3,
            long_names: false,
        },
        "idle" => Profile {
            name: "idle",
            queues: 4,
            steps: 36,
            weights: [4, 2, 60, 26, 2, 6],
            lens: vec![(40, 15), (20_000, 35), (60_000, 35), (100_000, 15)],
            max_batch: 2,
            explicit_pos_percent: 8,
            reject_percent: 2,
            long_names: false,
        },
        other => panic!("unknown profile {other}"),
    }
}

pub const PROFILES: [&str; 14] = [
    "restarts",
    "rejects",
    "persist",
    "boundary",
    "drain",
    "idle",
    "small",
    "gc-heavy",
    "big",
    "many-queues",
    "positions",
    "names",
    "wrap",
    "batch",
];

struct QModel {
    exists: bool,
    next: u64,
    first: u64,
    count: u64,
}

fn queue_names(rng: &mut Rng, n: usize, long_names: bool) -> Vec<String> {
    let mut names: Vec<String> = Vec::new();
    for idx in 0..n {
        let name = if long_names {
            match idx {
                0 => "q".to_string(),
                1 => "x".repeat(255),
                2 => "é✓队列-".to_string() + &idx.to_string(),
                3 => "n".repeat(65_535),
                4 => "q0".to_string(), // shares a prefix with other names
                _ => format!("q{idx}"),
            }
        } else {
            match rng.below(4) {
                0 => format!("q{idx}"),
                1 => format!("queue-{idx}-{}", "z".repeat(rng.below(40) as usize)),
                2 => format!("q{idx}/é✓"),
                _ => format!("{}{idx}", "q".repeat(1 + rng.below(3) as usize)),
            }
        };
        names.push(name);
    }
    names
}

pub fn encodable(anchors: &[u64], position: u64) -> bool {
    let anchor = anchors.iter().rev().find(|anchor| **anchor <= position).unwrap();
    position - anchor < ANCHOR_SPAN
}

pub fn anchors() -> Vec<u64> {
    // (the last one lies beyond 2^63: distances between positions then no longer fit a signed 64-bit integer)
    vec![0, 1 << 31, 1 << 40, 1 << 61, (1u64 << 62) - (1 << 20), (1u64 << 63) + (1 << 20)]
}

/// Every frame payload size in a window of 80 consecutive sizes (nine windows by seed), plus,
/// in the first window's script, the sizes around powers of two and the largest single frame: a
/// size-specific path in the frame / checksum code has nowhere to hide from the per-frame damage
/// cases (first / middle / last payload byte, checksum bytes, header fields).
fn sizes_script(seed: u64, policy: &str) -> Script {
    let mut rng = Rng(seed.wrapping_mul(0x51_7E5).wrapping_add(3));
    let name = format!("s{}", "z".repeat(rng.below(6) as usize));
    let window = (seed % 9) as usize;
    let mut lens: Vec<usize> = (window * 80..(window + 1) * 80).collect();
    if window == 0 {
        for power in [9u32, 10, 11, 12, 13, 14] {
            for delta in -2i64..=2 {
                lens.push(((1i64 << power) + delta) as usize);
            }
        }
        // the largest entry that fits one frame of an empty block, give or take
        for len in 32_700..32_770 {
            if len % 7 == 0 || (32_730..32_745).contains(&len) {
                lens.push(len);
            }
        }
    }
    let mut steps = vec![Step::Create { q: 0 }];
    let mut payload_seed = seed << 20;
    for len in lens {
        payload_seed += 1;
        steps.push(Step::Append { q: 0, pos: None, batch: vec![Payload { seed: payload_seed, len, embed: None }] });
    }
    Script {
        name: format!("sizes-{seed}"),
        policy: policy.to_string(),
        queues: vec![name],
        anchors: anchors(),
        steps,
        expect: None,
    }
}

/// Runs of zero-length records at the head, in the middle and at the tail of a queue, with
/// truncations that evict exactly a run of them, part of one, or a run plus one real record
/// (per-record bookkeeping that is not tied to payload bytes).
fn empties_script(seed: u64, policy: &str) -> Script {
    let mut rng = Rng(seed.wrapping_mul(0xE3_7713).wrapping_add(11));
    let mut steps = vec![Step::Create { q: 0 }, Step::Create { q: 1 }, Step::Create { q: 2 }];
    // (a third queue carries bulk traffic in half of the scripts: roll-overs and GC passes happen while
    // the other two hold nothing but zero-length records)
    let with_bulk = seed % 2 == 0;
    let mut bulk_next = 0u64;
    let mut payload_seed = seed << 20;
    let mut next = [0u64, 0u64];
    let mut first = [0u64, 0u64];
    for round in 0..6 + rng.below(6) {
        let q = (round % 2) as usize;
        let empties = 1 + rng.below(6);
        let reals = rng.below(3);
        let mut lens: Vec<usize> = Vec::new();
        let order = rng.below(3);
        for _ in 0..empties {
            lens.push(0);
        }
        for _ in 0..reals {
            lens.push(1 + rng.below(300) as usize);
        }
        if order == 1 {
            lens.reverse();
        } else if order == 2 && lens.len() > 2 {
            let last_idx = lens.len() - 1;
            lens.swap(0, last_idx);
        }
        let run_start = next[q];
        if rng.chance(50) {
            let batch: Vec<Payload> = lens
                .iter()
                .map(|len| {
                    payload_seed += 1;
                    Payload { seed: payload_seed, len: *len, embed: None }
                })
                .collect();
            next[q] += batch.len() as u64;
            steps.push(Step::Append { q, pos: None, batch });
        } else {
            for len in &lens {
                payload_seed += 1;
                steps.push(Step::Append { q, pos: None, batch: vec![Payload { seed: payload_seed, len: *len, embed: None }] });
                next[q] += 1;
            }
        }
        // a truncation aimed at the run just written or at the head of the queue
        if next[q] > first[q] && rng.chance(80) {
            let p = match rng.below(4) {
                0 => first[q],                                    // the first retained record only
                1 => run_start.saturating_sub(1).max(first[q]),   // everything before the run
                2 => (run_start + empties - 1).min(next[q] - 1),  // up to the end of the empties (if they lead)
                _ => first[q] + rng.below(next[q] - first[q]),
            };
            steps.push(Step::Truncate { q, p });
            first[q] = first[q].max(p + 1);
        }
        if with_bulk && rng.chance(60) {
            for _ in 0..3 {
                payload_seed += 1;
                steps.push(Step::Append { q: 2, pos: None, batch: vec![Payload { seed: payload_seed, len: 45_000 + rng.below(10_000) as usize, embed: None }] });
                bulk_next += 1;
            }
            steps.push(Step::Truncate { q: 2, p: bulk_next - 1 });
        }
        if rng.chance(20) {
            steps.push(Step::Restart);
        }
    }
    steps.push(Step::Restart);
    Script {
        name: format!("empties-{seed}"),
        policy: policy.to_string(),
        queues: vec!["e".to_string(), format!("é{}", rng.below(10)), "bulk".to_string()],
        anchors: anchors(),
        steps,
        expect: None,
    }
}

/// Records whose block-filling frames are byte-identical (one byte repeated, or a pattern of the
/// frame capacity's period), several blocks long: whatever a reader remembers from one frame to the
/// next looks the same for consecutive frames.
fn uniform_script(seed: u64, policy: &str) -> Script {
    use crate::script::{PERIODIC_SEED, UNIFORM_SEED};
    let mut rng = Rng(seed.wrapping_mul(0x51_7711).wrapping_add(5));
    let mut steps = vec![Step::Create { q: 0 }, Step::Create { q: 1 }];
    let mut payload_seed = seed << 20;
    for round in 0..2 + rng.below(2) {
        for _ in 0..rng.below(3) {
            payload_seed += 1;
            steps.push(Step::Append { q: 1, pos: None, batch: vec![Payload { seed: payload_seed, len: rng.below(200) as usize, embed: None }] });
        }
        payload_seed += 1;
        let regular = if rng.chance(50) { UNIFORM_SEED } else { PERIODIC_SEED } | (payload_seed & 0xffff_ffff);
        // at least two block-filling continuation frames
        let len = 3 * 32_768 + rng.below(40_000) as usize;
        steps.push(Step::Append { q: 0, pos: None, batch: vec![Payload { seed: regular, len, embed: None }] });
        if round > 0 && rng.chance(50) {
            steps.push(Step::Truncate { q: 0, p: round - 1 });
        }
        if rng.chance(30) {
            steps.push(Step::Restart);
        }
    }
    steps.push(Step::Restart);
    Script {
        name: format!("uniform-{seed}"),
        policy: policy.to_string(),
        queues: vec!["u".to_string(), "other".to_string()],
        anchors: anchors(),
        steps,
        expect: None,
    }
}

/// Idle queues with names of tens of kilobytes: the position entries one GC pass writes for them
/// add up to more than a whole WAL file (the pass rolls over, possibly twice, on its own).
fn longnames_script(seed: u64, policy: &str) -> Script {
    let mut rng = Rng(seed.wrapping_mul(0x10_4E7).wrapping_add(9));
    let idle = 2 + rng.below(3) as usize;
    let mut queues = vec!["busy".to_string()];
    for idx in 0..idle {
        queues.push(format!("{idx}{}", "n".repeat(30_000 + rng.below(35_000) as usize)));
    }
    let mut steps = vec![Step::Create { q: 0 }];
    for q in 1..=idle {
        steps.push(Step::Create { q });
    }
    let mut payload_seed = seed << 20;
    let mut next = 0u64;
    for _ in 0..2 + rng.below(2) {
        // enough to leave at least one file behind
        for _ in 0..5 + rng.below(4) {
            payload_seed += 1;
            steps.push(Step::Append { q: 0, pos: None, batch: vec![Payload { seed: payload_seed, len: 20_000 + rng.below(20_000) as usize, embed: None }] });
            next += 1;
        }
        steps.push(Step::Truncate { q: 0, p: next - 1 });
        if rng.chance(30) {
            steps.push(Step::Restart);
        }
    }
    if rng.chance(50) {
        steps.push(Step::Delete { q: 0 });
    }
    steps.push(Step::Restart);
    Script { name: format!("longnames-{seed}"), policy: policy.to_string(), queues, anchors: anchors(), steps, expect: None }
}

/// A queue moved beyond 2^63 by a truncation into the future, then rejected / no-op / accepted
/// appends at both ends of the position space (distances that do not fit a signed 64-bit integer).
fn edge63_script(seed: u64, policy: &str) -> Script {
    let mut rng = Rng(seed.wrapping_mul(0xED_6E63).wrapping_add(1));
    let far = *anchors().last().unwrap();
    let mut steps = vec![Step::Create { q: 0 }, Step::Create { q: 1 }];
    let mut payload_seed = seed << 20;
    let mut payload = |len: usize| {
        payload_seed += 1;
        Payload { seed: payload_seed, len, embed: None }
    };
    for _ in 0..rng.below(3) {
        steps.push(Step::Append { q: 0, pos: None, batch: vec![payload(10)] });
    }
    let jump = far + rng.below(1000);
    if rng.chance(50) {
        steps.push(Step::Truncate { q: 0, p: jump });
    } else {
        steps.push(Step::Append { q: 0, pos: Some(jump), batch: vec![payload(7)] });
    }
    for _ in 0..3 + rng.below(4) {
        let step = match rng.below(6) {
            0 => Step::Append { q: 0, pos: Some(rng.below(5)), batch: vec![payload(9)] },          // 2^63 behind: Past
            1 => Step::Append { q: 0, pos: Some((1 << 40) + rng.below(5)), batch: vec![payload(9), payload(0)] },
            2 => Step::Append { q: 0, pos: None, batch: vec![payload(12)] },
            3 => Step::Append { q: 1, pos: Some(rng.below(3)), batch: vec![payload(5)] },
            4 => Step::Truncate { q: 0, p: rng.below(4) },                                           // far below the start: no-op
            _ => Step::Restart,
        };
        steps.push(step);
    }
    steps.push(Step::Restart);
    steps.push(Step::Append { q: 0, pos: None, batch: vec![payload(3)] });
    Script { name: format!("edge63-{seed}"), policy: policy.to_string(), queues: vec!["e".to_string(), "f".to_string()], anchors: anchors(), steps, expect: None }
}

/// Long batches behind a gap of positions, truncated in their middle, far from the first record:
/// an index computed from position differences is off by the width of the gap.
fn gapbatch_script(seed: u64, policy: &str) -> Script {
    let mut rng = Rng(seed.wrapping_mul(0x6A9_BA7C).wrapping_add(7));
    let mut steps = vec![Step::Create { q: 0 }, Step::Create { q: 1 }];
    let mut payload_seed = seed << 20;
    let mut next = 0u64;
    for _ in 0..1 + rng.below(3) {
        let head = 1 + rng.below(6);
        let batch: Vec<Payload> = (0..head).map(|_| { payload_seed += 1; Payload { seed: payload_seed, len: rng.below(40) as usize, embed: None } }).collect();
        steps.push(Step::Append { q: 0, pos: None, batch });
        next += head;
        let gap = 1 + rng.below(3);
        let n = 17 + rng.below(12);
        let big = rng.chance(40);
        let batch: Vec<Payload> = (0..n).map(|_| { payload_seed += 1; Payload { seed: payload_seed, len: if big { 6_000 + rng.below(4_000) as usize } else { rng.below(60) as usize }, embed: None } }).collect();
        steps.push(Step::Append { q: 0, pos: Some(next + gap), batch });
        let first_of_batch = next + gap;
        next = first_of_batch + n;
        if rng.chance(30) {
            steps.push(Step::Restart);
        }
        // keep a suffix of the long batch
        let keep = 1 + rng.below(4);
        steps.push(Step::Truncate { q: 0, p: next - 1 - keep });
        if rng.chance(60) {
            steps.push(Step::Restart);
        }
        payload_seed += 1;
        steps.push(Step::Append { q: 1, pos: None, batch: vec![Payload { seed: payload_seed, len: 30, embed: None }] });
    }
    steps.push(Step::Restart);
    Script { name: format!("gapbatch-{seed}"), policy: policy.to_string(), queues: vec!["g".to_string(), "h".to_string()], anchors: anchors(), steps, expect: None }
}

pub fn generate(profile_name: &str, seed: u64, policy: &str) -> Script {
    if profile_name == "gapbatch" {
        return gapbatch_script(seed, policy);
    }
    if profile_name == "edge63" {
        return edge63_script(seed, policy);
    }
    if profile_name == "longnames" {
        return longnames_script(seed, policy);
    }
    if profile_name == "uniform" {
        return uniform_script(seed, policy);
    }
    if profile_name == "sizes" {
        return sizes_script(seed, policy);
    }
    if profile_name == "empties" {
        return empties_script(seed, policy);
    }
    let prof = profile(profile_name);
    let mut rng = Rng(seed.wrapping_mul(0x9E37_79B9).wrapping_add(0xABCD));
    let queues = queue_names(&mut rng, prof.queues, prof.long_names);
    let anchors = anchors();
    let mut model: Vec<QModel> = (0..prof.queues)
        .map(|_| QModel {
            exists: false,
            next: 0,
            first: 0,
            count: 0,
        })
        .collect();
    let mut steps = Vec::new();
    let mut payload_seed = seed << 20;
    let total_weight: u64 = prof.weights.iter().sum();
    let len_weight: u64 = prof.lens.iter().map(|(_, weight)| weight).sum();
    let max_pos = (1u64 << 63) + (1 << 23);
    while steps.len() < prof.steps {
        let mut pick = rng.below(total_weight);
        let mut kind = 0;
        for (idx, weight) in prof.weights.iter().enumerate() {
            if pick < *weight {
                kind = idx;
                break;
            }
            pick -= weight;
        }
        let existing: Vec<usize> = (0..prof.queues).filter(|q| model[*q].exists).collect();
        let missing: Vec<usize> = (0..prof.queues).filter(|q| !model[*q].exists).collect();
        let reject = rng.chance(prof.reject_percent);
        match kind {
            0 => {
                // create
                let q = if reject && !existing.is_empty() {
                    *rng.pick(&existing)
                } else if !missing.is_empty() {
                    *rng.pick(&missing)
                } else {
                    continue;
                };
                if !model[q].exists {
                    model[q] = QModel {
                        exists: true,
                        next: 0,
                        first: 0,
                        count: 0,
                    };
                }
                steps.push(Step::Create { q });
            }
            1 => {
                let q = if reject && !missing.is_empty() {
                    *rng.pick(&missing)
                } else if !existing.is_empty() {
                    *rng.pick(&existing)
                } else {
                    continue;
                };
                model[q].exists = false;
                steps.push(Step::Delete { q });
            }
            2 => {
                let q = if reject && !missing.is_empty() {
                    *rng.pick(&missing)
                } else if !existing.is_empty() {
                    *rng.pick(&existing)
                } else {
                    continue;
                };
                let batch_len = if rng.chance(6) {
                    0
                } else if rng.chance(60) {
                    1
                } else {
                    1 + rng.below(prof.max_batch)
                };
                let mut batch = Vec::new();
                for _ in 0..batch_len {
                    let mut pick = rng.below(len_weight);
                    let mut max_len = 1;
                    for (len, weight) in &prof.lens {
                        if pick < *weight {
                            max_len = *len;
                            break;
                        }
                        pick -= weight;
                    }
                    payload_seed += 1;
                    let len = if prof.name == "boundary" {
                        // lengths around multiples of the block size, so that frames end near
                        // block and file ends at drifting alignments
                        match rng.below(6) {
                            0 => rng.below(30) as usize,
                            1 | 2 => (32_768 * (1 + rng.below(2)) as usize).saturating_sub(rng.below(90) as usize),
                            3 => (32_768 * (1 + rng.below(4)) as usize) + rng.below(40) as usize,
                            4 => 131_072usize.saturating_sub(rng.below(120) as usize),
                            _ => rng.below(3000) as usize,
                        }
                    } else {
                        rng.below(max_len as u64) as usize
                    };
                    let (len, embed) = if prof.name == "embed" && rng.chance(60) {
                        // payload class Embeds: contains the image of a well-formed frame carrying
                        // an append for some queue at a position far from the real ones
                        let plen = 4 + rng.below(20) as usize;
                        let at = rng.below(60) as usize;
                        let target = rng.below(prof.queues as u64) as usize;
                        let frame_len = 7 + 11 + queues[target].len() + 12 + plen;
                        (
                            at + frame_len + rng.below(40) as usize,
                            Some(crate::script::Embed {
                                at,
                                q: target,
                                pos: 5000 + rng.below(1000),
                                pseed: payload_seed ^ 0x5555,
                                plen,
                            }),
                        )
                    } else {
                        (len, None)
                    };
                    batch.push(Payload {
                        seed: payload_seed,
                        len,
                        embed,
                    });
                }
                let next = model[q].next;
                let pos = if model[q].exists && rng.chance(prof.explicit_pos_percent) {
                    let choice = rng.below(10);
                    let candidate = match choice {
                        0 | 1 | 2 => next,
                        3 | 4 => next.saturating_sub(1),
                        // (in the past: just behind, or - half of the time - at the very beginning of the position space)
                        5 => if rng.chance(50) { next.saturating_sub(2 + rng.below(3)) } else { rng.below(4).min(next.saturating_sub(2)) },
                        6 | 7 => next + 1 + rng.below(3),
                        8 => next + 100 + rng.below(1000),
                        _ => {
                            // jump to just above the next anchor
                            let above = anchors.iter().find(|anchor| **anchor > next);
                            match above {
                                Some(anchor) => anchor + rng.below(5),
                                None => next + 1,
                            }
                        }
                    };
                    let candidate = candidate.min(max_pos - 64);
                    Some(if encodable(&anchors, candidate) { candidate } else { next })
                } else if !model[q].exists && rng.chance(30) {
                    Some(rng.below(5))
                } else {
                    None
                };
                if model[q].exists {
                    let accepted_start = match pos {
                        None => Some(next),
                        Some(p) if p + 1 == next => None,
                        Some(p) if p < next => None,
                        Some(p) => Some(p),
                    };
                    if let Some(start) = accepted_start {
                        if batch_len > 0 {
                            if model[q].count == 0 {
                                model[q].first = start;
                            }
                            model[q].count += batch_len;
                            model[q].next = start + batch_len;
                        }
                    }
                }
                steps.push(Step::Append { q, pos, batch });
            }
            3 => {
                let q = if reject && !missing.is_empty() {
                    *rng.pick(&missing)
                } else if !existing.is_empty() {
                    *rng.pick(&existing)
                } else {
                    continue;
                };
                let next = model[q].next;
                let first = model[q].first;
                let choice = rng.below(10);
                let p = match choice {
                    0 => first.saturating_sub(1 + rng.below(2)),
                    1 | 2 | 3 | 4 => {
                        if next > first {
                            first + rng.below(next - first)
                        } else {
                            next
                        }
                    }
                    5 | 6 => next.saturating_sub(1),
                    7 => next,
                    8 => next + 1 + rng.below(20),
                    _ => next.saturating_sub(2),
                }
                .min(max_pos - 64);
                // only positions the trace encoding can express (within 2^24 of an anchor)
                let p = if encodable(&anchors, p) { p } else { next.saturating_sub(1) };
                if model[q].exists {
                    if p + 1 >= next {
                        if model[q].count > 0 || p + 1 > next {
                            // emptied (possibly into the future)
                        }
                        if p + 1 > model[q].first || model[q].count > 0 {
                            model[q].count = 0;
                            model[q].next = next.max(p + 1);
                            model[q].first = model[q].next;
                        }
                    } else if p >= first {
                        model[q].count = model[q].count.saturating_sub(p + 1 - first);
                        model[q].first = p + 1;
                    }
                }
                steps.push(Step::Truncate { q, p });
            }
            4 => steps.push(Step::Persist {
                fsync: rng.chance(50),
            }),
            _ => steps.push(Step::Restart),
        }
        // keep positions inside one anchor window
        for queue in model.iter_mut() {
            let anchor = anchors.iter().rev().find(|anchor| **anchor <= queue.next).unwrap();
            if queue.next - anchor > ANCHOR_SPAN / 2 {
                queue.exists = false; // stop using it; cannot happen with these step counts
            }
        }
    }
    if prof.name == "idle" {
        // queue 0: created, appended to, emptied by a truncation (sometimes into the future), then
        // left idle while the others roll and collect files; appended to again at the end
        let mut head = vec![
            Step::Create { q: 0 },
            Step::Append {
                q: 0,
                pos: if rng.chance(50) { Some(rng.below(40)) } else { None },
                batch: (0..1 + rng.below(3))
                    .map(|idx| Payload {
                        seed: (seed << 20) + 900_000 + idx,
                        len: rng.below(200) as usize,
                        embed: None,
                    })
                    .collect(),
            },
        ];
        head.push(Step::Truncate {
            q: 0,
            p: 40 + rng.below(60) * rng.below(2),
        });
        let mut tail: Vec<Step> = steps
            .into_iter()
            .filter(|step| step.queue() != Some(0))
            .collect();
        head.append(&mut tail);
        head.push(Step::Restart);
        for q in 0..prof.queues {
            head.push(Step::Append {
                q,
                pos: None,
                batch: vec![Payload {
                    seed: (seed << 20) + 950_000 + q as u64,
                    len: 10,
                    embed: None,
                }],
            });
        }
        steps = head;
    }
    if prof.name == "drain" {
        for q in 0..prof.queues {
            steps.push(Step::Truncate {
                q,
                p: model[q].next + rng.below(3),
            });
        }
        if rng.chance(50) {
            steps.push(Step::Restart);
        }
    }
    Script {
        name: format!("{profile_name}-{seed}"),
        policy: policy.to_string(),
        queues,
        anchors,
        steps,
        expect: None,
    }
}
