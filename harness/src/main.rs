//! mrl-harness: drives the real mrecordlog (built from /repo's working tree with
//! --cfg mrecordlog_verif) and records traces for validation against the TLA+ specification.
mod aimed;
mod alloc;
mod codec;
mod crash;
mod damage;
mod disk;
mod exec;
mod fault;
mod frames;
mod gcfail;
mod gen;
mod names;
mod obstacle;
mod pair;
mod script;
mod sigkill;

use std::collections::BTreeMap;
use std::io::Write;
use std::path::{Path, PathBuf};
use std::sync::atomic::{AtomicUsize, Ordering};
use std::sync::{Arc, Mutex};
use std::time::Duration;

use serde_json::{json, Value};

use crate::script::Script;

#[global_allocator]
static GLOBAL: alloc::Counting = alloc::Counting;

pub struct Args {
    pub cmd: String,
    pub opts: BTreeMap<String, String>,
}

impl Args {
    fn parse() -> Args {
        let mut argv = std::env::args().skip(1);
        let cmd = argv.next().unwrap_or_else(|| "help".to_string());
        let mut opts = BTreeMap::new();
        let rest: Vec<String> = argv.collect();
        let mut idx = 0;
        while idx < rest.len() {
            let key = rest[idx].trim_start_matches("--").to_string();
            if idx + 1 < rest.len() && !rest[idx + 1].starts_with("--") {
                opts.insert(key, rest[idx + 1].clone());
                idx += 2;
            } else {
                opts.insert(key, "1".to_string());
                idx += 1;
            }
        }
        Args { cmd, opts }
    }
    pub fn get(&self, key: &str, default: &str) -> String {
        self.opts.get(key).cloned().unwrap_or_else(|| default.to_string())
    }
    pub fn num(&self, key: &str, default: u64) -> u64 {
        self.opts
            .get(key)
            .map(|value| value.parse().expect("numeric option"))
            .unwrap_or(default)
    }
    pub fn flag(&self, key: &str) -> bool {
        self.opts.contains_key(key)
    }
}

/// A set of output files, one per worker, plus shared counters.
pub static HARNESS_FAILURES: AtomicUsize = AtomicUsize::new(0);

pub struct Output {
    pub dir: PathBuf,
    pub stats: Mutex<BTreeMap<String, u64>>,
    pub samples: Mutex<Vec<Value>>,
}

impl Output {
    pub fn new(dir: &Path) -> Output {
        std::fs::create_dir_all(dir.join("scripts")).unwrap();
        Output {
            dir: dir.to_path_buf(),
            stats: Mutex::new(BTreeMap::new()),
            samples: Mutex::new(Vec::new()),
        }
    }
    pub fn add(&self, key: &str, n: u64) {
        *self.stats.lock().unwrap().entry(key.to_string()).or_insert(0) += n;
    }
    pub fn sample(&self, value: Value) {
        let mut samples = self.samples.lock().unwrap();
        if samples.len() < 6 {
            samples.push(value);
        }
    }
    pub fn finish(&self, extra: Value) {
        let failures = HARNESS_FAILURES.load(Ordering::SeqCst) as u64;
        if failures > 0 {
            self.add("harness_failures", failures);
        }
        let stats = self.stats.lock().unwrap().clone();
        let samples = self.samples.lock().unwrap().clone();
        let value = json!({"stats": stats, "samples": samples, "extra": extra});
        std::fs::write(self.dir.join("stats.json"), serde_json::to_vec_pretty(&value).unwrap()).unwrap();
    }
}

pub fn write_lines(file: &mut std::io::BufWriter<std::fs::File>, lines: &[Value]) {
    for line in lines {
        serde_json::to_writer(&mut *file, line).unwrap();
        file.write_all(b"\n").unwrap();
    }
}

/// Runs `work(job index, worker output file)` for every job on `jobs` threads.
pub fn parallel<F>(n_jobs: usize, threads: usize, out_dir: &Path, prefix: &str, work: F)
where
    F: Fn(usize, &mut std::io::BufWriter<std::fs::File>) + Send + Sync + 'static,
{
    let next = Arc::new(AtomicUsize::new(0));
    let work = Arc::new(work);
    let mut handles = Vec::new();
    for worker in 0..threads.max(1) {
        let next = next.clone();
        let work = work.clone();
        let path = out_dir.join(format!("{prefix}-{worker:02}.ndjson"));
        handles.push(
            std::thread::Builder::new()
                .stack_size(32 << 20)
                .spawn(move || {
                    let mut file = std::io::BufWriter::new(std::fs::File::create(path).unwrap());
                    loop {
                        let job = next.fetch_add(1, Ordering::SeqCst);
                        if job >= n_jobs {
                            break;
                        }
                        // a panic of the harness's own modelling (not of the library: that is caught
                        // where it is called) on one script must not hide what the other scripts
                        // show: it is counted, reported in stats.json and turned into a tool error
                        // by bin/check unless a violation was found anyway
                        let outcome = std::panic::catch_unwind(std::panic::AssertUnwindSafe(|| work(job, &mut file)));
                        if outcome.is_err() {
                            HARNESS_FAILURES.fetch_add(1, Ordering::SeqCst);
                        }
                    }
                    file.flush().unwrap();
                })
                .unwrap(),
        );
    }
    for handle in handles {
        handle.join().unwrap();
    }
}

/// Scripts from --scripts (file or directory) or --gen profile:count,... x --policy list.
pub fn load_scripts(args: &Args) -> Vec<Script> {
    let mut scripts = Vec::new();
    if let Some(path) = args.opts.get("scripts") {
        let path = PathBuf::from(path);
        let mut files = Vec::new();
        if path.is_dir() {
            for entry in std::fs::read_dir(&path).unwrap().flatten() {
                if entry.path().extension().map(|ext| ext == "json").unwrap_or(false) {
                    files.push(entry.path());
                }
            }
            files.sort();
        } else {
            files.push(path);
        }
        for file in files {
            let text = std::fs::read_to_string(&file).unwrap();
            let value: Value = serde_json::from_str(&text).unwrap();
            // a replay file wraps the script
            let script_value = value.get("script").cloned().unwrap_or(value);
            scripts.push(serde_json::from_value(script_value).expect("script format"));
        }
    }
    if let Some(spec) = args.opts.get("gen") {
        let seed = args.num("seed", 1);
        let policies: Vec<String> = args
            .get("policy", "always_flush")
            .split(',')
            .map(|policy| policy.to_string())
            .collect();
        for part in spec.split(',') {
            let (profile, count) = part.split_once(':').unwrap_or((part, "1"));
            let count: u64 = count.parse().unwrap();
            for idx in 0..count {
                // an aimed script is generated once (adaptively, against a live log) and then used
                // unchanged under every policy: the order in which a GC pass records the empty
                // queues is not deterministic, so two generations may aim differently
                let aimed_base = if aimed::is_aimed(profile) {
                    Some(aimed::generate(profile, seed * 1_000_003 + idx, &policies[0]))
                } else {
                    None
                };
                for policy in &policies {
                    let mut script = match &aimed_base {
                        Some(base) => {
                            let mut script = base.clone();
                            script.policy = policy.clone();
                            script
                        }
                        None => gen::generate(profile, seed * 1_000_003 + idx, policy),
                    };
                    if policies.len() > 1 {
                        script.name = format!("{}@{}", script.name, policy);
                    }
                    scripts.push(script);
                }
            }
        }
    }
    scripts
}

fn crash_opts(args: &Args) -> Option<crash::CrashOpts> {
    let model = args.opts.get("crash")?;
    let tears = match args.get("tears", "aimed").as_str() {
        "boundaries" => crash::Tears::Boundaries,
        "aimed" => crash::Tears::Aimed,
        "all" => crash::Tears::All,
        other => panic!("unknown --tears {other}"),
    };
    Some(crash::CrashOpts {
        process: model == "process" || model == "both",
        power: model == "power" || model == "both",
        tears,
        cont: args.flag("cont"),
        depth2: args.flag("depth2"),
        max_points: args.num("max-points", 0) as usize,
        seed: args.num("seed", 1),
        deadline: Duration::from_secs(args.num("deadline", 10)),
        glue: args.flag("glue"),
    })
}

fn cmd_run(args: &Args) {
    let scripts = load_scripts(args);
    let out_dir = PathBuf::from(args.get("out", "/dev/shm/mrl-out"));
    let output = Arc::new(Output::new(&out_dir));
    let opts = crash_opts(args);
    let scripts = Arc::new(scripts);
    let output_in = output.clone();
    let scripts_in = scripts.clone();
    let save_scripts = !args.flag("no-save-scripts");
    // --c14: consecutive scripts (same history under each policy) form a group handled by one
    // worker; the first run of a group is the reference, the others are compared with it
    let group = if args.flag("c14") {
        args.get("policy", "always_flush").split(',').count()
    } else {
        1
    };
    let n = scripts.len() / group;
    parallel(n, args.num("jobs", 8) as usize, &out_dir, "trace", move |group_idx, file| {
      for member in 0..group {
        let job = group_idx * group + member;
        let script = &scripts_in[job];
        if save_scripts {
            std::fs::write(
                output_in.dir.join("scripts").join(format!("{}.json", script.name)),
                serde_json::to_vec(script).unwrap(),
            )
            .unwrap();
        }
        let (mut record, runner) = exec::run_script(script, job);
        drop(runner);
        if group > 1 {
            record.run_line["c14"] = json!(if member == 0 { 1 } else { 2 });
        }
        output_in.add("runs", 1);
        output_in.add("calls", record.steps.len() as u64);
        output_in.add(
            "io_events",
            record.steps.iter().map(|step| step.events.len() as u64).sum(),
        );
        if record.aborted {
            output_in.add("aborted_runs", 1);
        }
        for step in &record.steps {
            let op = step.begin["op"].as_str().unwrap_or("");
            if op == "restart" {
                output_in.add("restarts", 1);
            }
            if matches!(op, "truncate" | "delete" | "restart") {
                output_in.add("gc_calls", 1);
            }
            let wrote = step
                .events
                .iter()
                .any(|event| matches!(event, mrecordlog::verif::IoEvent::BufWrite { .. }));
            if wrote && op != "restart" {
                output_in.add("writing_calls", 1);
            }
            let noop = step.kind != "ok"
                || (op == "append" && step.end["res"]["last"].as_i64() == Some(-1));
            if noop && op != "restart" && op != "persist" {
                output_in.add("noop_calls", 1);
            }
            if step
                .events
                .iter()
                .any(|event| matches!(event, mrecordlog::verif::IoEvent::Unlink { .. }))
            {
                output_in.add("calls_with_unlink", 1);
            }
            if step
                .events
                .iter()
                .filter(|event| matches!(event, mrecordlog::verif::IoEvent::Unlink { .. }))
                .count()
                >= 2
            {
                output_in.add("calls_with_multi_unlink", 1);
            }
            if step
                .events
                .iter()
                .any(|event| matches!(event, mrecordlog::verif::IoEvent::Create { .. }))
            {
                output_in.add("calls_with_rollover", 1);
            }
        }
        let crash_lines = match &opts {
            Some(opts) => {
                let (lines, stats) = crash::expand(&record, opts);
                output_in.add("crash_points", stats.points as u64);
                output_in.add("crash_opens", stats.opens as u64);
                output_in.add("crash_groups", stats.groups as u64);
                output_in.add("crash_incall_points", stats.incall_points as u64);
                output_in.add("crash_torn_points", stats.torn_points as u64);
                output_in.add("crash_depth2_points", stats.depth2_points as u64);
                output_in.add("crash_not_ok", stats.not_ok as u64);
                output_in.add("crash_timeouts", stats.timeouts as u64);
                output_in.add("crash_glue_points", stats.glue_points as u64);
                lines
            }
            None => Vec::new(),
        };
        output_in.sample(json!({"script": script.name, "policy": script.policy,
            "steps": script.steps.iter().take(12).collect::<Vec<_>>(), "n_steps": script.steps.len()}));
        let lines = crash::assemble(&record, crash_lines);
        output_in.add("trace_lines", lines.len() as u64);
        write_lines(file, &lines);
      }
    });
    output.finish(json!({"cmd": "run"}));
    exec::cleanup_scratch();
}

fn cmd_gen(args: &Args) {
    let scripts = load_scripts(args);
    let out_dir = PathBuf::from(args.get("out", "/dev/shm/mrl-scripts"));
    std::fs::create_dir_all(&out_dir).unwrap();
    for script in scripts {
        std::fs::write(
            out_dir.join(format!("{}.json", script.name)),
            serde_json::to_vec(&script).unwrap(),
        )
        .unwrap();
    }
}

fn main() {
    // the library logs through `tracing`; no subscriber is installed, so it stays silent.
    let default_hook = std::panic::take_hook();
    if std::env::var("MRL_PANIC_VERBOSE").is_err() {
        std::panic::set_hook(Box::new(|_| {}));
    } else {
        std::panic::set_hook(default_hook);
    }
    let args = Args::parse();
    match args.cmd.as_str() {
        "run" => cmd_run(&args),
        "gen" => cmd_gen(&args),
        "damage" => damage::cmd(&args),
        "fault" => fault::cmd(&args),
        "pair" => pair::cmd(&args),
        "names" => names::cmd(&args),
        "frames" => frames::cmd(&args),
        "codec" => codec::cmd(&args),
        "obstacle" => obstacle::cmd(&args),
        "gcfail" => gcfail::cmd(&args),
        "sigkill" => sigkill::cmd(&args),
        "killchild" => sigkill::child(&args),
        _ => {
            eprintln!("usage: mrl-harness run|gen|damage|fault|pair|names|frames [--opt value]...");
            std::process::exit(2);
        }
    }
}
