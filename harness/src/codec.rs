//! The entry codec against `Codec.tla`: byte strings are handed to the real deserializer
//! (`verif::decode_entry` = `MultiPlexedRecord::deserialize`), the answer goes into a `codec`
//! trace line, and the trace specification compares it with `Codec!Decode`.
//!
//!   enc = 1   encodings produced by the real serializer from generated entries (round trip, C07)
//!   enc = 0   prefixes, byte substitutions, insertions, deletions and tampered length fields of
//!             such encodings, and short random strings (the deserializer must not panic, C10)
use std::panic::{catch_unwind, AssertUnwindSafe};
use std::path::PathBuf;
use std::sync::Arc;

use mrecordlog::verif::{self, Entry};
use serde_json::{json, Value};

use crate::gen::Rng;
use crate::{parallel, write_lines, Args, Output};

fn bytes_json(bytes: &[u8]) -> Vec<i64> {
    bytes.iter().map(|byte| *byte as i64).collect()
}

fn decode_line(bytes: &[u8], enc: i64) -> Value {
    let outcome = catch_unwind(AssertUnwindSafe(|| verif::decode_entry(bytes)));
    match outcome {
        Err(_) => json!({"ev": "codec", "enc": enc, "b": bytes_json(bytes), "out": "panic", "k": "", "q": [], "pos": [], "recs": []}),
        Ok(None) => json!({"ev": "codec", "enc": enc, "b": bytes_json(bytes), "out": "none", "k": "", "q": [], "pos": [], "recs": []}),
        Ok(Some(entry)) => {
            let (kind, queue, position, records) = match entry {
                Entry::Append { queue, position, records } => ("append", queue, position, records),
                Entry::Truncate { queue, position } => ("trunc", queue, position, Vec::new()),
                Entry::Position { queue, position } => ("pos", queue, position, Vec::new()),
                Entry::Delete { queue, position } => ("del", queue, position, Vec::new()),
            };
            let recs: Vec<Value> = records
                .iter()
                .map(|(record_position, payload)| {
                    json!({"pos": bytes_json(&record_position.to_le_bytes()), "payload": bytes_json(payload)})
                })
                .collect();
            json!({"ev": "codec", "enc": enc, "b": bytes_json(bytes), "out": "entry", "k": kind,
                   "q": bytes_json(queue.as_bytes()), "pos": bytes_json(&position.to_le_bytes()), "recs": recs})
        }
    }
}

fn random_name(rng: &mut Rng) -> String {
    match rng.below(6) {
        0 => String::new(),
        1 => "q".to_string(),
        2 => format!("queue-{}", rng.below(1000)),
        3 => "é✓队列💾".to_string(),
        4 => "n".repeat(1 + rng.below(300) as usize),
        _ => format!("q{}/é", rng.below(10)),
    }
}

fn random_position(rng: &mut Rng) -> u64 {
    match rng.below(6) {
        0 => 0,
        1 => rng.below(100),
        2 => u64::MAX,
        3 => u64::MAX - 1,
        4 => 1 << 63,
        _ => rng.next(),
    }
}

fn random_entry(rng: &mut Rng) -> Entry {
    let queue = random_name(rng);
    let position = random_position(rng);
    match rng.below(6) {
        0 => Entry::Truncate { queue, position },
        1 => Entry::Position { queue, position },
        2 => Entry::Delete { queue, position },
        _ => {
            let count = rng.below(5) as usize;
            let mut records = Vec::new();
            let mut record_position = position;
            for _ in 0..count {
                let len = match rng.below(5) {
                    0 => 0,
                    1 => 1,
                    2 => rng.below(12) as usize,
                    3 => rng.below(80) as usize,
                    _ => rng.below(300) as usize,
                };
                let payload: Vec<u8> = (0..len).map(|_| rng.below(256) as u8).collect();
                records.push((record_position, payload));
                record_position = if rng.chance(80) { record_position.wrapping_add(1) } else { random_position(rng) };
            }
            Entry::Append { queue, position, records }
        }
    }
}

fn mutations(rng: &mut Rng, bytes: &[u8], out: &mut Vec<Vec<u8>>) {
    // prefixes around every field boundary and a few random ones
    for cut in [0usize, 1, 9, 10, 11, 12, 22, 23, bytes.len().saturating_sub(1), bytes.len().saturating_sub(12)] {
        if cut < bytes.len() {
            out.push(bytes[..cut].to_vec());
        }
    }
    for _ in 0..3 {
        out.push(bytes[..rng.below(bytes.len() as u64 + 1) as usize].to_vec());
    }
    if bytes.is_empty() {
        return;
    }
    // substitutions: the type byte, the name length, and random places
    for value in [0u8, 1, 2, 3, 4, 5, 0xff] {
        let mut mutated = bytes.to_vec();
        mutated[0] = value;
        out.push(mutated);
    }
    if bytes.len() >= 11 {
        for (lo, hi) in [(0u8, 0u8), (1, 0), (0xff, 0xff), (0, 1), (bytes[9].wrapping_add(1), bytes[10]), (bytes[9].wrapping_sub(1), bytes[10])] {
            let mut mutated = bytes.to_vec();
            mutated[9] = lo;
            mutated[10] = hi;
            out.push(mutated);
        }
    }
    for _ in 0..8 {
        let mut mutated = bytes.to_vec();
        let at = rng.below(mutated.len() as u64) as usize;
        mutated[at] = [0u8, 1, 0x7f, 0x80, 0xc3, 0xff, rng.below(256) as u8][rng.below(7) as usize];
        out.push(mutated);
    }
    // the record length fields of a batch (the last 4 bytes of every 12-byte record header are
    // not located exactly: tamper 4-byte windows at random)
    for _ in 0..4 {
        if bytes.len() > 16 {
            let mut mutated = bytes.to_vec();
            let at = 11 + rng.below((mutated.len() - 15) as u64) as usize;
            let value: [u8; 4] = match rng.below(4) {
                0 => [0, 0, 0, 0],
                1 => [0xff, 0xff, 0xff, 0xff],
                2 => [0xff, 0xff, 0xff, 0x7f],
                _ => (rng.below(400) as u32).to_le_bytes(),
            };
            mutated[at..at + 4].copy_from_slice(&value);
            out.push(mutated);
        }
    }
    // insertion, deletion, trailing bytes
    let mut mutated = bytes.to_vec();
    mutated.insert(rng.below(bytes.len() as u64 + 1) as usize, rng.below(256) as u8);
    out.push(mutated);
    let mut mutated = bytes.to_vec();
    mutated.remove(rng.below(bytes.len() as u64) as usize);
    out.push(mutated);
    let mut mutated = bytes.to_vec();
    mutated.extend_from_slice(&[0, 0, 0]);
    out.push(mutated);
    let mut mutated = bytes.to_vec();
    mutated.extend_from_slice(&[0u8; 12]);
    out.push(mutated);
}

pub fn cmd(args: &Args) {
    let out_dir = PathBuf::from(args.get("out", "/dev/shm/mrl-out"));
    let output = Arc::new(Output::new(&out_dir));
    let count = args.num("cases", 300) as usize;
    let seed = args.num("seed", 1);
    let jobs = args.num("jobs", 8) as usize;
    let chunks = jobs.max(1);
    let output_in = output.clone();
    parallel(chunks, jobs, &out_dir, "trace", move |chunk, file| {
        let mut lines = vec![json!({"ev": "run", "id": chunk, "c14": 0, "prepop": 0, "script": format!("codec-{chunk}"),
                                    "policy": "always_flush", "nq": 0, "qlen": []})];
        let mut rng = Rng(seed.wrapping_mul(0xC0DE_C0DE).wrapping_add(chunk as u64));
        for _ in 0..count / chunks + 1 {
            let entry = random_entry(&mut rng);
            let bytes = verif::encode_entry(&entry);
            lines.push(decode_line(&bytes, 1));
            output_in.add("codec_encoded", 1);
            let mut mutated = Vec::new();
            mutations(&mut rng, &bytes, &mut mutated);
            for candidate in mutated {
                if candidate == bytes {
                    continue;
                }
                lines.push(decode_line(&candidate, 0));
                output_in.add("codec_mutated", 1);
            }
        }
        // short random strings
        for _ in 0..count / chunks {
            let len = rng.below(40) as usize;
            let mut bytes: Vec<u8> = (0..len).map(|_| rng.below(256) as u8).collect();
            if !bytes.is_empty() && rng.chance(70) {
                bytes[0] = 1 + rng.below(4) as u8;
            }
            if bytes.len() > 10 && rng.chance(70) {
                bytes[9] = rng.below(6) as u8;
                bytes[10] = 0;
            }
            lines.push(decode_line(&bytes, 0));
            output_in.add("codec_random", 1);
        }
        output_in.add("codec_cases", lines.len() as u64 - 1);
        output_in.add("trace_lines", lines.len() as u64);
        output_in.add("runs", 1);
        write_lines(file, &lines);
    });
    output.finish(json!({"cmd": "codec"}));
}
