//! (to be written)
pub fn cmd(_args: &crate::Args) {
    eprintln!("frames: not implemented yet");
    std::process::exit(2);
}
