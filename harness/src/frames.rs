//! C07 at the record layer: the real RecordWriter over an in-memory block writer that logs every
//! write, the real RecordReader over the produced bytes.  Every case: a start cursor (reached by
//! a filler entry), a sequence of entry lengths chosen relative to the cursor, read back.
use std::io;
use std::path::PathBuf;
use std::sync::{Arc, Mutex};

use mrecordlog::verif::{FrameWriter, RawEntry, RecordReader, RecordWriter};
use mrecordlog::{BlockRead, BlockWrite, PersistAction, BLOCK_NUM_BYTES};
use serde_json::{json, Value};

use crate::gen::Rng;
use crate::script::{digest, plain_bytes};
use crate::{parallel, write_lines, Args, Output};

const HDR: usize = 7;

#[derive(Default)]
struct LogWriter {
    data: Vec<u8>,
    writes: Arc<Mutex<Vec<(usize, usize, u8)>>>,
}

impl BlockWrite for LogWriter {
    fn write(&mut self, buf: &[u8]) -> io::Result<()> {
        assert!(buf.len() <= self.num_bytes_remaining_in_block());
        if buf.is_empty() {
            return Ok(());
        }
        let frame_type = if buf.len() >= HDR { buf[6] } else { 0 };
        self.writes.lock().unwrap().push((self.data.len(), buf.len(), frame_type));
        self.data.extend_from_slice(buf);
        Ok(())
    }
    fn persist(&mut self, _persist_action: PersistAction) -> io::Result<()> {
        Ok(())
    }
    fn num_bytes_remaining_in_block(&self) -> usize {
        BLOCK_NUM_BYTES - (self.data.len() % BLOCK_NUM_BYTES)
    }
}

struct VecReader {
    data: Vec<u8>,
    block_idx: usize,
    block: Box<[u8; BLOCK_NUM_BYTES]>,
}

impl VecReader {
    fn new(mut data: Vec<u8>) -> VecReader {
        // files are pre-sized with zeros: pad to whole blocks plus one empty block
        let blocks = data.len() / BLOCK_NUM_BYTES + 2;
        data.resize(blocks * BLOCK_NUM_BYTES, 0);
        let mut block = Box::new([0u8; BLOCK_NUM_BYTES]);
        block.copy_from_slice(&data[..BLOCK_NUM_BYTES]);
        VecReader { data, block_idx: 0, block }
    }
}

impl BlockRead for VecReader {
    fn next_block(&mut self) -> io::Result<bool> {
        let start = (self.block_idx + 1) * BLOCK_NUM_BYTES;
        if start + BLOCK_NUM_BYTES > self.data.len() {
            return Ok(false);
        }
        self.block.copy_from_slice(&self.data[start..start + BLOCK_NUM_BYTES]);
        self.block_idx += 1;
        Ok(true)
    }
    fn block(&self) -> &[u8; BLOCK_NUM_BYTES] {
        &self.block
    }
}

/// Returns the trace line of one case.
fn run_case(case_id: usize, start: usize, lens: &[usize], seed: u64, orphan_frames: usize) -> Value {
    let writes = Arc::new(Mutex::new(Vec::new()));
    let log_writer = LogWriter { data: Vec::new(), writes: writes.clone() };
    let mut writer: RecordWriter<LogWriter> = FrameWriter::create(log_writer).into();
    // fillers: whole blocks, then one Full frame ending at the start offset
    let mut fill_entries = 0;
    let blocks = start / BLOCK_NUM_BYTES;
    for _ in 0..blocks {
        writer.write_record(RawEntry(&vec![0xAAu8; BLOCK_NUM_BYTES - HDR])).unwrap();
        fill_entries += 1;
    }
    let in_block = start % BLOCK_NUM_BYTES;
    if in_block >= HDR {
        writer.write_record(RawEntry(&vec![0xBBu8; in_block - HDR])).unwrap();
        fill_entries += 1;
    }
    // "what precedes": the dangling head of an entry whose writer died before its last frame
    // (a process crash inside a multi-block append): the first `orphan_frames` frames of a
    // 3-block entry stay, the writer resumes right after them (as recovery positions it)
    let mut orphan = 0;
    if orphan_frames > 0 {
        let before = writes.lock().unwrap().len();
        let keep_until;
        {
            writer.write_record(RawEntry(&vec![0xCCu8; 3 * BLOCK_NUM_BYTES])).unwrap();
            let all = writes.lock().unwrap();
            let frames: Vec<&(usize, usize, u8)> = all[before..].iter().filter(|write| write.2 != 0).collect();
            let kept = orphan_frames.min(frames.len() - 1);
            let last_kept = frames[kept - 1];
            keep_until = last_kept.0 + last_kept.1;
            orphan = kept;
        }
        // rebuild a writer over the truncated bytes
        let mut data = writer.get_underlying_wrt().data.clone();
        data.truncate(keep_until);
        writes.lock().unwrap().retain(|write| write.0 < keep_until);
        let resumed = LogWriter { data, writes: writes.clone() };
        writer = FrameWriter::create(resumed).into();
    }
    let filler_writes = writes.lock().unwrap().len();
    let real_start = writer.get_underlying_wrt().data.len();
    let mut wrote = Vec::new();
    let mut reported = Vec::new();
    for (idx, len) in lens.iter().enumerate() {
        let bytes = plain_bytes(seed.wrapping_add(idx as u64), *len);
        wrote.push(json!([*len, digest(&bytes)]));
        let spent = writer.write_record(RawEntry(&bytes)).unwrap();
        reported.push(spent);
    }
    let all_writes = writes.lock().unwrap().clone();
    let ws: Vec<Value> = all_writes[filler_writes..]
        .iter()
        .map(|(off, len, frame_type)| json!([*off, *len, *frame_type]))
        .collect();
    let end = writer.get_underlying_wrt().data.len();
    let data = writer.get_underlying_wrt().data.clone();
    // read everything back
    let mut reader = RecordReader::open(VecReader::new(data));
    let mut read = Vec::new();
    let mut errors = 0;
    let mut guard = 0;
    loop {
        guard += 1;
        if guard > 10_000 {
            errors += 1000;
            break;
        }
        // go_next + record: the two primitives read_record is made of
        match reader.go_next() {
            Ok(true) => match reader.record::<RawEntry>() {
                Some(entry) => read.push(json!([entry.0.len(), digest(entry.0)])),
                None => errors += 1,
            },
            Ok(false) => break,
            Err(_) => errors += 1,
        }
    }
    let read_tail: Vec<Value> = read.iter().skip(fill_entries).cloned().collect();
    let start = if orphan > 0 { real_start } else { start };
    json!({"ev": "frames", "id": case_id, "orphan": orphan, "start": real_start, "want_start": start, "lens": lens, "ws": ws,
           "wrote": wrote, "read": read_tail, "nread": read.len(), "nfill": fill_entries, "errors": errors,
           "reported": reported, "end": end})
}

/// The same round trip THROUGH WAL FILES: the real RecordWriter over the real RollingWriter (as
/// `open` hands it over), the real RecordReader over the real RollingReader.  Fillers bring the
/// cursor to `gap` bytes before the end of a WAL file; then the entries (empty ones among them:
/// a header-only frame is 7 bytes, the size of the largest padding + 1); optionally the writer is
/// dropped and re-created from a reader in between; everything is read back.
fn run_files_case(case_id: usize, gap: usize, lens: &[usize], seed: u64, restart: bool) -> Value {
    use mrecordlog::verif::{RollingReader, RollingWriter};
    let (_, _, blocks_per_file) = mrecordlog::verif::geometry();
    let dir = crate::exec::TempDir::new();
    let open_writer = |dir: &std::path::Path| -> RecordWriter<RollingWriter> {
        let mut reader = RecordReader::open(RollingReader::open(dir).unwrap());
        while let Ok(true) = reader.go_next() {}
        reader.into_writer().unwrap()
    };
    let mut writer = open_writer(&dir.path);
    let mut wrote = Vec::new();
    let mut write = |writer: &mut RecordWriter<RollingWriter>, bytes: &[u8], wrote: &mut Vec<Value>| {
        wrote.push(json!([bytes.len(), digest(bytes)]));
        writer.write_record(RawEntry(bytes)).unwrap();
    };
    // fillers: whole blocks, then one frame that ends `gap` bytes before the end of the file
    for _ in 0..blocks_per_file - 1 {
        write(&mut writer, &vec![0xAAu8; BLOCK_NUM_BYTES - HDR], &mut wrote);
    }
    if BLOCK_NUM_BYTES >= gap + HDR {
        write(&mut writer, &vec![0xBBu8; BLOCK_NUM_BYTES - gap - HDR], &mut wrote);
    }
    if restart {
        writer.persist(PersistAction::Flush).unwrap();
        drop(writer);
        writer = open_writer(&dir.path);
    }
    for (idx, len) in lens.iter().enumerate() {
        let bytes = plain_bytes(seed.wrapping_add(idx as u64), *len);
        write(&mut writer, &bytes, &mut wrote);
    }
    writer.persist(PersistAction::Flush).unwrap();
    drop(writer);
    let mut reader = RecordReader::open(RollingReader::open(&dir.path).unwrap());
    let mut read = Vec::new();
    let mut errors = 0;
    for _ in 0..10_000 {
        match reader.go_next() {
            Ok(true) => match reader.record::<RawEntry>() {
                Some(entry) => read.push(json!([entry.0.len(), digest(entry.0)])),
                None => errors += 1,
            },
            Ok(false) => break,
            Err(_) => errors += 1,
        }
    }
    json!({"ev": "filesrt", "id": case_id, "gap": gap, "restart": restart as i64, "wrote": wrote, "read": read, "errors": errors})
}

fn menu(rng: &mut Rng, cursor_in_block: usize) -> usize {
    let rem = BLOCK_NUM_BYTES - cursor_in_block % BLOCK_NUM_BYTES;
    let cap = if rem >= HDR { rem - HDR } else { BLOCK_NUM_BYTES - HDR };
    let full = BLOCK_NUM_BYTES - HDR;
    match rng.below(12) {
        0 => 0,
        1 => 1 + rng.below(8) as usize,
        2 => cap.saturating_sub(rng.below(9) as usize),
        3 => cap + rng.below(3) as usize,
        4 => cap + full - rng.below(9) as usize,
        5 => cap + full + rng.below(3) as usize,
        6 => cap + 2 * full + rng.below(2) as usize,
        7 => full - 1 + rng.below(3) as usize,
        8 => 4 * BLOCK_NUM_BYTES + rng.below(100) as usize,
        9 => 300_000 - rng.below(1000) as usize,
        10 => rng.below(70_000) as usize,
        _ => cap.saturating_sub(HDR + rng.below(3) as usize),
    }
}

pub fn cmd(args: &Args) {
    let out_dir = PathBuf::from(args.get("out", "/dev/shm/mrl-out"));
    let output = Arc::new(Output::new(&out_dir));
    let count = args.num("cases", 2000) as usize;
    let seed = args.num("seed", 1);
    let sweep = args.flag("sweep");
    // start offsets: the whole block in the sweep, else boundary classes + random
    let output_in = output.clone();
    let jobs = args.num("jobs", 8) as usize;
    let chunks = jobs.max(1) * 4;
    parallel(chunks, jobs, &out_dir, "trace", move |chunk, file| {
        let mut lines = vec![json!({"ev": "run", "id": chunk, "c14": 0, "prepop": 0, "script": format!("frames-{chunk}"),
                                    "policy": "always_flush", "nq": 0, "qlen": []})];
        let mut rng = Rng(seed.wrapping_mul(0x7777_1234).wrapping_add(chunk as u64));
        let per_chunk = if sweep { BLOCK_NUM_BYTES / chunks + 1 } else { count / chunks + 1 };
        for idx in 0..per_chunk {
            let in_block = if sweep {
                chunk * per_chunk + idx
            } else {
                match rng.below(6) {
                    0 => 0,
                    1 => HDR + rng.below(10) as usize,
                    2 | 3 => BLOCK_NUM_BYTES - rng.below(17) as usize,
                    4 => BLOCK_NUM_BYTES - HDR - rng.below(30) as usize,
                    _ => HDR + rng.below((BLOCK_NUM_BYTES - HDR) as u64) as usize,
                }
            };
            if in_block > BLOCK_NUM_BYTES || (in_block > 0 && in_block < HDR) {
                continue;
            }
            let start = in_block + BLOCK_NUM_BYTES * rng.below(3) as usize;
            let n = 1 + rng.below(3) as usize;
            // lengths are chosen relative to where the cursor will be: track it approximately
            let mut cursor = start;
            let mut lens = Vec::new();
            for _ in 0..n {
                let len = menu(&mut rng, cursor % BLOCK_NUM_BYTES);
                lens.push(len);
                // advance: padding + frames (approximation good enough for aiming)
                let mut rest = len;
                loop {
                    let rem = BLOCK_NUM_BYTES - cursor % BLOCK_NUM_BYTES;
                    if rem < HDR {
                        cursor += rem;
                        continue;
                    }
                    let take = rest.min(rem - HDR);
                    cursor += HDR + take;
                    rest -= take;
                    if rest == 0 {
                        break;
                    }
                }
            }
            let orphan_frames = if !sweep && rng.chance(25) { 1 + rng.below(3) as usize } else { 0 };
            let line = run_case(chunk * 1_000_000 + idx, start, &lens, rng.next(), orphan_frames);
            if orphan_frames > 0 {
                output_in.add("frame_cases_after_orphan", 1);
            }
            output_in.add("frame_cases", 1);
            output_in.add("frame_entries", lens.len() as u64);
            output_in.add("frames_written", line["ws"].as_array().unwrap().len() as u64);
            if idx < 2 && chunk == 0 {
                output_in.sample(json!({"start": start, "lens": lens}));
            }
            lines.push(line);
        }
        // through WAL files: every gap 0..=16 before the end of a file x a few tails (this chunk's share)
        let tails: [&[usize]; 8] = [&[0, 5], &[0, 0, 5], &[5], &[0], &[1, 0, 3], &[0, 40_000, 0], &[32_761, 0, 2], &[200_000, 0]];
        let mut file_case = 0;
        for gap in 0..=16usize {
            for (tail_idx, tail) in tails.iter().enumerate() {
                for restart in [false, true] {
                    file_case += 1;
                    if file_case % chunks != chunk {
                        continue;
                    }
                    let line = run_files_case(chunk * 1_000_000 + 500_000 + file_case, gap, tail, rng.next() ^ tail_idx as u64, restart);
                    output_in.add("file_cases", 1);
                    lines.push(line);
                }
            }
        }
        output_in.add("trace_lines", lines.len() as u64);
        output_in.add("runs", 1);
        write_lines(file, &lines);
    });
    output.finish(json!({"cmd": "frames"}));
    crate::exec::cleanup_scratch();
}
