CONSTANTS
  BlockSize = 32768
  HeaderLen = 7
  BlocksPerFile = 4
  RecHdr = 11
  BatchHdr = 12
SPECIFICATION TraceSpec
POSTCONDITION TraceAccepted
CHECK_DEADLOCK FALSE
