CONSTANTS
  BlockSize = 32768
  HeaderLen = 7
  BlocksPerFile = 4
SPECIFICATION TraceSpec
POSTCONDITION TraceAccepted
CHECK_DEADLOCK FALSE
