------------------------------- MODULE GEN_Wal ------------------------------
(* Specification -> implementation: Wal.tla run at the REAL geometry          *)
(* (32768 / 7 / 4, entry codec 11 + 1-byte names, 12 bytes per record) as a   *)
(* generator of behaviours.  Every behaviour of up to MaxOps calls (+ a clean *)
(* restart) is printed as one JSON line with the state Wal.tla predicts at    *)
(* its end: the abstract queue map, the write cursor and the set of WAL       *)
(* files.  bin/gen_real.py turns the lines into scripts; the harness executes *)
(* them against the real library and WalTrace compares prediction and         *)
(* observation (event `expect`).                                              *)
EXTENDS Wal, Json

VARIABLE hist
gvars == <<vars, hist>>

GInit == Init /\ hist = <<>>

GNext ==
  /\ Next
  /\ hist' = IF mode = "Ready" /\ mode' = "Ready" /\ todo = <<>> /\ todo' # <<>>
             THEN Append(hist, [k |-> "call", op |-> inflight'.op, q |-> inflight'.q, pos |-> inflight'.pos,
                                lens |-> [i \in 1..Len(inflight'.batch) |-> inflight'.batch[i][2]], p |-> inflight'.p])
             ELSE IF mode = "Ready" /\ mode' = "Closed"
             THEN Append(hist, [k |-> "restart", op |-> "restart", q |-> -1, pos |-> -1, lens |-> <<>>, p |-> -1])
             ELSE hist

AbsJson == [q \in Queues |->
              IF mem[q].a THEN [a |-> 1, next |-> MemNext(mem[q]),
                                recs |-> [i \in 1..Len(mem[q].recs) |-> <<mem[q].recs[i].pos, mem[q].recs[i].len>>]]
              ELSE [a |-> 0, next |-> -1, recs |-> <<>>]]

(* always TRUE; prints at the end of every behaviour *)
Emit ==
  (mode = "Ready" /\ todo = <<>> /\ nops = MaxOps) =>
     PrintT("GEN|" \o ToJson([hist |-> hist, abs |-> [i \in 1..Cardinality(Queues) |-> AbsJson[i - 1]],
                              w |-> <<wfile, woff>>, files |-> SortedSeq(exists), done |-> verdict]))
=============================================================================
