CONSTANTS
  BlockSize = 32768
  HeaderLen = 7
  BlocksPerFile = 4
  Starts = {0, 7, 8, 100, 32754, 32755, 32760, 32761, 32762, 32767, 32768, 65529, 98304, 131058, 131064, 131065, 131071, 131072, 131079, 262137}
  Lens = {0, 1, 6, 7, 8, 13, 14, 32746, 32747, 32753, 32754, 32755, 32761, 32762, 65507, 65522, 65523, 98283, 131044, 131072, 131079, 300000}
  MaxEntries = 2
INIT Init
NEXT Next
INVARIANTS RoundTrip BytesOk Layout CursorHandOver Additive
CHECK_DEADLOCK FALSE
