CONSTANTS
  BlockSize = 8
  HeaderLen = 2
  BlocksPerFile = 2
  RecHdr = 1
  BatchHdr = 1
  Queues = {0}
  MaxOps = 4
  MaxPost = 1
  MaxCrashes = 1
  Policy = "always_flush"
  LossModels = {"process"}
  GcAlwaysSyncs = TRUE
  OpenSizesLast = TRUE
  PayLens = {2, 30}
  BatchSizes = {1}
  AllowExplicit = FALSE
  MaxDamage = 0
  DamageKinds = {}
  CrcQuarantinesBlock = FALSE
  MinOpsBeforeCrash = 3
  WithPersistCalls = FALSE
  WithNoops = FALSE
INIT MCInit
NEXT MCNext
INVARIANTS FilesBoundOpenStrict
CHECK_DEADLOCK FALSE
