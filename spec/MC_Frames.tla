------------------------------ MODULE MC_Frames ------------------------------
(* C07 / C15 at the design level: for every start cursor and every sequence  *)
(* of entry lengths within the bound, what the writer lays out is read back  *)
(* identical and in order, no frame crosses a block, the byte count equals   *)
(* the cursor advance, and reader and writer agree on where the log ends.    *)
EXTENDS Frames, TLC
CONSTANTS Starts, Lens, MaxEntries
VARIABLES start, lens
vars == <<start, lens>>

Init == start \in Starts /\ lens = <<>>
Next == Len(lens) < MaxEntries /\ \E n \in Lens : lens' = Append(lens, n) /\ UNCHANGED start

W == WriteAll(start \div FileSize, start % FileSize, lens, 1, <<>>)
WEnd == W.file * FileSize + W.off

RoundTrip == ReadStream(W.effs, start).out = lens
BytesOk == EffBytes(W.effs) = WEnd - start
Layout == LayoutWellFormed(W.effs) /\ TypesWellFormed(W.effs)
\* reader's final position = writer's final position, modulo the < HeaderLen block tail
\* (the reader stays in front of it, the writer pads it at its next write) and
\* "exact file end" == "start of the next file"
NF(p) == IF Rem(p) < HeaderLen THEN p + Rem(p) ELSE p
CursorHandOver == LET r == ReadStream(W.effs, start) IN NF(r.blk * BlockSize + r.cur) = NF(WEnd)
\* the per-entry byte count is additive: cost of each entry at its own cursor
RECURSIVE SumCost(_, _, _, _)
SumCost(f, off, i, acc) ==
  IF i > Len(lens) THEN acc
  ELSE LET s == SplitEntry(f, off, lens[i], {f}) IN SumCost(s.file, s.off, i + 1, acc + BytesWritten(f, off, lens[i]))
Additive == SumCost(start \div FileSize, start % FileSize, 1, 0) = EffBytes(W.effs)
=============================================================================
