------------------------------ MODULE WalPlan -------------------------------
(* Entry-codec lengths and planning helpers shared by Wal.tla (model         *)
(* checking) and WalTrace.tla (conformance of the recorded effects).         *)
(* An entry is RecHdr bytes (1 type + 8 position + 2 name length + name)     *)
(* plus, for an append, BatchHdr + len bytes per record (8 position + 4      *)
(* length + payload).  A batch is ONE entry.                                 *)
EXTENDS Frames

CONSTANTS RecHdr,     \* bytes of an entry without records (real: 11 + name length; the model uses one value)
          BatchHdr    \* per-record overhead inside an append entry (real: 12)

SeqSumLens(batch) ==
  LET RECURSIVE S(_)
      S(n) == IF n = 0 THEN 0 ELSE S(n - 1) + BatchHdr + batch[n][2]
  IN S(Len(batch))
=============================================================================
