------------------------------ MODULE WalPlan -------------------------------
(* Entry-codec lengths and planning helpers shared by Wal.tla (model         *)
(* checking) and WalTrace.tla (conformance of the recorded effects).         *)
(* An entry is RecHdr bytes (1 type + 8 position + 2 name length + name)     *)
(* plus, for an append, BatchHdr + len bytes per record (8 position + 4      *)
(* length + payload).  A batch is ONE entry.                                 *)
EXTENDS Frames

CONSTANTS RecHdr,     \* bytes of an entry without records (real: 11 + name length; the model uses one value)
          BatchHdr    \* per-record overhead inside an append entry (real: 12)

(* --- planning operators over plain data (used with the model's and with the real constants) --- *)

PersistEffs(f) == << Eff("FL", f, -1, 0, 0), Eff("FS", f, -1, 0, 0), Eff("DS", -1, -1, 0, 0) >>

(* file-system effects of persist_on_policy; OnDelay is not determined by the call sequence *)
PolicyFsEffs(policy, f) ==
  CASE policy = "always_flush" -> << Eff("FL", f, -1, 0, 0) >>
    [] policy = "always_fsync" -> PersistEffs(f)
    [] OTHER -> <<>>

(* position entries of a GC pass: entry i has lens[i] bytes; a marker <<"PE", i>> precedes its writes *)
RECURSIVE PosEntriesG(_, _, _, _, _, _)
PosEntriesG(lens, i, f, off, trk, acc) ==
  IF i > Len(lens) THEN [effs |-> acc, file |-> f, off |-> off, tracked |-> trk]
  ELSE LET s == SplitEntry(f, off, lens[i], trk) IN
         PosEntriesG(lens, i + 1, s.file, s.off, s.tracked, acc \o << <<"PE", i>> >> \o s.effs)

(* files removed by Directory::gc: oldest first, while unreferenced, never the last one *)
RECURSIVE Deletable(_, _, _)
Deletable(trk, refs, acc) ==
  IF Cardinality(trk) < 2 THEN acc
  ELSE LET f == CHOOSE x \in trk : \A y \in trk : x <= y IN
         IF f \in refs THEN acc ELSE Deletable(trk \ {f}, refs, Append(acc, f))

GcCan(refs, trk, f) ==
  Cardinality(trk) >= 2 /\ ~((CHOOSE x \in trk : \A y \in trk : x <= y) \in (refs \cup {f}))

(* run_gc_if_necessary.  refs: files referenced by retained records (after the call's in-memory   *)
(* update); (f, off): cursor after the call's own entry; lens: the position entries, in the order *)
(* the HashMap yields the empty queues.  The clone of current_file taken BEFORE the position      *)
(* entries pins f; the writer itself references the file it ends up in.                           *)
GcPlanG(refs, trk, f, off, lens, alwaysSync) ==
  IF ~GcCan(refs, trk, f) THEN [effs |-> <<>>, file |-> f, off |-> off, tracked |-> trk, ran |-> FALSE]
  ELSE LET pe == PosEntriesG(lens, 1, f, off, trk, <<>>)
           del == Deletable(pe.tracked, refs \cup {f, pe.file}, <<>>)
           sync == IF alwaysSync \/ pe.effs # <<>> THEN PersistEffs(pe.file) ELSE <<>>
       IN [effs |-> pe.effs \o sync \o [i \in 1..Len(del) |-> Eff("UL", del[i], -1, 0, 0)],
           file |-> pe.file, off |-> pe.off, tracked |-> pe.tracked \ {del[i] : i \in 1..Len(del)}, ran |-> TRUE]

IsFsEff(x) == x[1] \in {"W", "FL", "FS", "DS", "OP", "CR", "SL", "UL"}
FsOnly(effs) == SelectSeq(effs, IsFsEff)

(* file-system effects of one mutating call, from the pre-state *)
CallFsPlan(kind, ownLen, f, off, trk, refsAfter, lens, policy, alwaysSync) ==
  LET own == SplitEntry(f, off, ownLen, trk)
      gc == GcPlanG(refsAfter, own.tracked, own.file, own.off, lens, alwaysSync)
  IN CASE kind = "create" -> own.effs \o PersistEffs(own.file)
       [] kind = "append" -> own.effs \o PolicyFsEffs(policy, own.file)
       [] kind = "truncate" -> own.effs \o FsOnly(gc.effs) \o PolicyFsEffs(policy, gc.file)
       [] kind = "delete" -> own.effs \o FsOnly(gc.effs) \o PersistEffs(gc.file)

SeqSumLens(batch) ==
  LET RECURSIVE S(_)
      S(n) == IF n = 0 THEN 0 ELSE S(n - 1) + BatchHdr + batch[n][2]
  IN S(Len(batch))
=============================================================================
