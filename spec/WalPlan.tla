------------------------------ MODULE WalPlan -------------------------------
(* Planning operators: the I/O effects each API call performs, computed from *)
(* the pre-state.  Shared by Wal.tla (model checking) and WalTrace.tla       *)
(* (conformance of the recorded effects).                                    *)
EXTENDS Frames
=============================================================================
