-------------------------------- MODULE Stale --------------------------------
(***************************************************************************)
(* The end of the log, and what lies behind it.                            *)
(*                                                                         *)
(* Wal.tla stops exploring after header damage ("the writer may resume in  *)
(* front of stale frames").  This module explores exactly that region, at  *)
(* the level of bytes ("cells") of one pre-sized WAL file:                  *)
(*                                                                         *)
(*   - a frame is one header cell followed by its payload cells; a frame   *)
(*     never crosses a block; an entry is Full | First Middle* Last;        *)
(*   - the checksum of a frame covers its own payload only: a frame is      *)
(*     valid iff the cells behind its header are ITS payload cells;         *)
(*   - the reader stops at an all-zero header ("nothing written here        *)
(*     yet"), drops a frame whose checksum fails, gives up on the rest of a *)
(*     block at an invalid header, and the record layer joins               *)
(*     First Middle* Last frames it meets in a row;                         *)
(*   - open resumes the writer where the reader stopped; the cells behind   *)
(*     that point are left as they are (ClearBehind = FALSE: the code) or   *)
(*     zeroed (ClearBehind = TRUE: a candidate repair);                     *)
(*   - an append writes its frames one by one; a crash may fall between     *)
(*     two of them; damage at rest zeroes a header ("zero"), invalidates it *)
(*     ("type"), garbles one payload cell ("crc") or alters the declared    *)
(*     length of a frame ("len": the checksum fails and the reader          *)
(*     resynchronises at the declared extent - inside payload bytes, which  *)
(*     read as an invalid header, or as the end-of-log marker when the      *)
(*     payload consists of zero bytes).                                     *)
(*                                                                         *)
(* NoSplice (C08 at the frame / record layer): every entry the reader       *)
(* delivers consists of all frames of ONE appended entry, in order.         *)
(*                                                                         *)
(* TLC results (section 10 of DESIGN.md, finding D10):                      *)
(*   MC_Stale.cfg          {"type", "crc", "len"}, no all-zero payloads:    *)
(*                         NoSplice holds                                   *)
(*   MC_Stale_D10.cfg      {"zero"}: NoSplice VIOLATED - the trace is the   *)
(*                         history of findings/D10-demo                     *)
(*   MC_Stale_D10len.cfg   {"len"} with all-zero payloads: VIOLATED too -   *)
(*                         the second way damage puts the marker in the     *)
(*                         reader's way                                     *)
(*   MC_Stale_repair.cfg   all kinds, ClearBehind = TRUE: NoSplice holds    *)
(*   MC_Stale_M124.cfg     {"type"} with EndOnBadHeader = TRUE (the reader  *)
(*                         of seeded changes M124 / M141): VIOLATED         *)
(* The harness experiment `damage --dmgcrash` replays the same histories on *)
(* the real code, aimed so that the spliced entry also decodes.             *)
(***************************************************************************)
EXTENDS Integers, Sequences, FiniteSets, TLC

CONSTANTS B,            \* cells per block (header = 1 cell)
          NBlocks,      \* blocks in the file
          Lens,         \* payload lengths of entries
          MaxAppends, MaxCrashes, MaxDamage,
          DamageKinds,  \* subset of {"zero", "type", "crc", "len"}
          PayZero,      \* subset of BOOLEAN: may a payload consist of zero bytes
          EndOnBadHeader, \* FALSE: the code. TRUE: a reader that takes an invalid header for the end of the log
                          \* (seeded changes M124 - zero type byte - and M141 - header of 0xFF bytes)
          ClearBehind   \* open zeroes everything behind the point where the writer resumes

N == B * NBlocks

TFull == 1
TFirst == 2
TMiddle == 3
TLast == 4
IsFirstT(t) == t \in {TFull, TFirst}
IsLastT(t) == t \in {TFull, TLast}

(* c: for a header, the payload length its checksum was computed over (n is the DECLARED length, which *)
(* damage may alter); for a payload cell, 1 iff the payload consists of zero bytes                      *)
Z == [k |-> "Z", e |-> 0, part |-> 0, n |-> 0, t |-> 0, c |-> 0]
X == [k |-> "X", e |-> 0, part |-> 0, n |-> 0, t |-> 0, c |-> 0]          \* garbled cell / invalid header
H(e, part, n, t) == [k |-> "H", e |-> e, part |-> part, n |-> n, t |-> t, c |-> n]
P(e, part, i, z) == [k |-> "P", e |-> e, part |-> part, n |-> i, t |-> 0, c |-> IF z THEN 1 ELSE 0]

VARIABLES cells,      \* [0..N-1 -> cell]
          wpos,       \* where the writer stands
          mode,       \* "Up" | "Down"
          nframes,    \* entry id -> number of frames it was split into (0: never appended)
          complete,   \* ids of entries all of whose frames were written, in order
          delivered,  \* what the last open delivered: sequence of sequences of <<entry, part>>
          lost,       \* an undamaged image was opened and did not deliver exactly the completed entries
          nappends, ncrashes, ndamage, dkinds
vars == <<cells, wpos, mode, nframes, complete, delivered, lost, nappends, ncrashes, ndamage, dkinds>>

MinOf(a, b) == IF a < b THEN a ELSE b

(* ---- writer: split an entry of `rest` payload cells into frames, from `pos` ---- *)
RECURSIVE Split(_, _, _, _)
Split(pos, rest, part, acc) ==
  LET room == B - (pos % B) - 1
      plen == MinOf(rest, room)
      last == rest = plen
      t == IF part = 1 /\ last THEN TFull ELSE IF part = 1 THEN TFirst ELSE IF last THEN TLast ELSE TMiddle
      acc2 == Append(acc, [pos |-> pos, n |-> plen, t |-> t, part |-> part])
  IN IF last THEN acc2 ELSE Split(pos + 1 + plen, rest - plen, part + 1, acc2)

FrameEnd(fr) == fr.pos + 1 + fr.n

WriteFrames(c, e, frs, upto, z) ==
  [i \in 0..(N - 1) |->
     IF \E j \in 1..upto : frs[j].pos = i THEN LET j == CHOOSE j \in 1..upto : frs[j].pos = i IN H(e, frs[j].part, frs[j].n, frs[j].t)
     ELSE IF \E j \in 1..upto : frs[j].pos < i /\ i < FrameEnd(frs[j])
          THEN LET j == CHOOSE j \in 1..upto : frs[j].pos < i /\ i < FrameEnd(frs[j]) IN P(e, frs[j].part, i - frs[j].pos, z)
     ELSE c[i]]

(* ---- reader: FrameReader + RecordReader over the cells ---- *)
RECURSIVE ReadLoop(_, _, _, _, _)
ReadLoop(c, cur, within, buf, out) ==
  IF cur >= N THEN [out |-> out, pos |-> N]
  ELSE LET x == c[cur]
           nextBlock == (cur \div B + 1) * B
       IN IF x.k = "Z" \/ (x.k = "P" /\ x.c = 1) THEN [out |-> out, pos |-> cur]          \* zero bytes where a header is expected: the log ends
          ELSE IF x.k = "X" /\ EndOnBadHeader THEN [out |-> out, pos |-> cur]
          ELSE IF x.k # "H" \/ (cur % B) + 1 + x.n > B
               THEN ReadLoop(c, nextBlock, FALSE, <<>>, out)                              \* invalid header: rest of the block given up
          ELSE LET crcOk == x.n = x.c /\ \A i \in 1..x.n : c[cur + i].k = "P" /\ c[cur + i].e = x.e /\ c[cur + i].part = x.part /\ c[cur + i].n = i
                   after == cur + 1 + x.n
               IN IF ~crcOk THEN ReadLoop(c, after, FALSE, <<>>, out)                     \* checksum failure: the frame alone is dropped
                  ELSE LET first == IsFirstT(x.t)
                           w1 == first \/ within
                           b1 == IF first THEN << <<x.e, x.part>> >> ELSE IF within THEN Append(buf, <<x.e, x.part>>) ELSE buf
                       IN IF w1 /\ IsLastT(x.t) THEN ReadLoop(c, after, FALSE, <<>>, Append(out, b1))
                          ELSE ReadLoop(c, after, w1, b1, out)

Read(c) == ReadLoop(c, 0, FALSE, <<>>, <<>>)

(* ---- actions ---- *)
Init ==
  /\ cells = [i \in 0..(N - 1) |-> Z] /\ wpos = 0 /\ mode = "Up"
  /\ nframes = [e \in 1..MaxAppends |-> 0] /\ complete = <<>> /\ delivered = <<>>
  /\ lost = FALSE /\ nappends = 0 /\ ncrashes = 0 /\ ndamage = 0 /\ dkinds = {}

(* an append: all its frames, or - a crash - only the first j of them *)
AppendEntry ==
  /\ mode = "Up" /\ nappends < MaxAppends
  /\ \E len \in Lens, z \in PayZero :
       LET e == nappends + 1
           frs == Split(wpos, len, 1, <<>>)
       IN /\ FrameEnd(frs[Len(frs)]) <= N                       \* (roll-over into another file is Wal.tla's business)
          /\ nframes' = [nframes EXCEPT ![e] = Len(frs)]
          /\ nappends' = e
          /\ \/ /\ cells' = WriteFrames(cells, e, frs, Len(frs), z)
                /\ wpos' = FrameEnd(frs[Len(frs)])
                /\ complete' = Append(complete, e)
                /\ UNCHANGED <<mode, ncrashes>>
             \/ /\ ncrashes < MaxCrashes
                /\ \E j \in 0..(Len(frs) - 1) :
                     /\ cells' = WriteFrames(cells, e, frs, j, z)
                /\ mode' = "Down" /\ ncrashes' = ncrashes + 1
                /\ UNCHANGED <<wpos, complete>>
  /\ UNCHANGED <<delivered, lost, ndamage, dkinds>>

Close ==
  /\ mode = "Up" /\ mode' = "Down"
  /\ UNCHANGED <<cells, wpos, nframes, complete, delivered, lost, nappends, ncrashes, ndamage, dkinds>>

Damage ==
  /\ mode = "Down" /\ ndamage < MaxDamage
  /\ \E i \in 0..(N - 1), kind \in DamageKinds :
       /\ CASE kind = "zero" -> cells[i].k = "H" /\ cells' = [cells EXCEPT ![i] = Z]
            [] kind = "type" -> cells[i].k = "H" /\ cells' = [cells EXCEPT ![i] = X]
            [] kind = "crc"  -> cells[i].k = "P" /\ cells' = [cells EXCEPT ![i] = X]
            [] kind = "len"  -> cells[i].k = "H" /\ \E nl \in (0..(B - 1)) \ {cells[i].n} : cells' = [cells EXCEPT ![i].n = nl]
       /\ dkinds' = dkinds \cup {kind}
  /\ ndamage' = ndamage + 1
  /\ UNCHANGED <<wpos, mode, nframes, complete, delivered, lost, nappends, ncrashes>>

Open ==
  /\ mode = "Down"
  /\ LET r == Read(cells) IN
       /\ delivered' = r.out
       /\ lost' = (lost \/ (ndamage = 0 /\ [i \in 1..Len(r.out) |-> r.out[i][1][1]] # complete))
       /\ wpos' = r.pos
       /\ cells' = IF ClearBehind THEN [i \in 0..(N - 1) |-> IF i >= r.pos THEN Z ELSE cells[i]] ELSE cells
  /\ mode' = "Up"
  /\ UNCHANGED <<nframes, complete, nappends, ncrashes, ndamage, dkinds>>

Next == AppendEntry \/ Close \/ Damage \/ Open

Spec == Init /\ [][Next]_vars

(* ---- properties ---- *)
GenuineEntry(b) ==
  /\ Len(b) > 0
  /\ LET e == b[1][1] IN
       /\ e \in 1..MaxAppends /\ nframes[e] = Len(b)
       /\ \A i \in 1..Len(b) : b[i] = <<e, i>>

NoSplice == \A i \in 1..Len(delivered) : GenuineEntry(delivered[i])

(* without damage the reader delivers exactly the completed entries, in order, at every open - after *)
(* clean closes and after crashes between two frames alike (C01 / C02 at this layer)                 *)
NoDamageExact == ~lost

(* the writer never resumes inside the frames of a delivered entry *)
TypeOk == wpos \in 0..N /\ mode \in {"Up", "Down"}
=============================================================================
