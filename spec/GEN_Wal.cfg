CONSTANTS
  BlockSize = 32768
  HeaderLen = 7
  BlocksPerFile = 4
  RecHdr = 12
  BatchHdr = 12
  Queues = {0, 1}
  MaxOps = 4
  MaxPost = 0
  MaxCrashes = 0
  Policy = "always_flush"
  LossModels = {}
  GcAlwaysSyncs = TRUE
  OpenSizesLast = TRUE
  PayLens = {1, 32737, 98000}
  BatchSizes = {1, 2}
  AllowExplicit = FALSE
  MaxDamage = 0
  DamageKinds = {}
  CrcQuarantinesBlock = FALSE
  MinOpsBeforeCrash = 0
  WithPersistCalls = FALSE
  WithNoops = FALSE
INIT GInit
NEXT GNext
INVARIANTS Emit Refines VerdictOk
CHECK_DEADLOCK FALSE
