------------------------------- MODULE Codec --------------------------------
(***************************************************************************)
(* The entry codec (src/record.rs): how one WAL entry - the payload of a    *)
(* record, i.e. of one Full frame or of a First..Last frame chain - is laid *)
(* out in bytes, and which byte strings decode to which entry.              *)
(*                                                                         *)
(*   entry   ::= type(1) position(8, LE) namelen(2, LE) name(namelen) body  *)
(*   type    ::= 1 Truncate | 2 RecordPosition | 3 DeleteQueue | 4 Append   *)
(*   body    ::= (position(8, LE) len(4, LE) payload(len))*   for type 4    *)
(*               anything (ignored)                          otherwise      *)
(*                                                                         *)
(* Bytes are naturals 0..255; 64-bit positions are kept as their 8 bytes    *)
(* (TLC integers are 32 bit).  Decode is TOTAL: every byte string is either *)
(* an entry or rejected (None) - this is what C10 needs from the codec -    *)
(* and Encode/Decode round-trip (C07 at the codec level).  The harness      *)
(* command `codec` feeds byte strings (valid encodings, mutations of them,  *)
(* hostile strings) to the real deserializer and the trace specification    *)
(* compares its answer with Decode.                                         *)
(***************************************************************************)
EXTENDS Integers, Sequences, FiniteSets

None == [k |-> "none"]

U16(b, at) == b[at] + 256 * b[at + 1]
(* a u32 that does not fit TLC's integers is "huge" (>= 2^31): it exceeds any buffer *)
U32Huge(b, at) == b[at + 3] >= 128
U32(b, at) == b[at] + 256 * b[at + 1] + 65536 * b[at + 2] + 16777216 * b[at + 3]

LE16(n) == << n % 256, n \div 256 >>
LE32(n) == << n % 256, (n \div 256) % 256, (n \div 65536) % 256, n \div 16777216 >>

(* ---- UTF-8 well-formedness (Unicode table 3-7), as std::str::from_utf8 checks it ---- *)
Cont(x) == x >= 128 /\ x <= 191
RECURSIVE Utf8From(_, _)
Utf8From(b, i) ==
  IF i > Len(b) THEN TRUE
  ELSE LET x == b[i]
           has(n) == i + n <= Len(b)
       IN IF x < 128 THEN Utf8From(b, i + 1)
          ELSE IF x >= 194 /\ x <= 223 THEN has(1) /\ Cont(b[i + 1]) /\ Utf8From(b, i + 2)
          ELSE IF x = 224 THEN has(2) /\ b[i + 1] >= 160 /\ b[i + 1] <= 191 /\ Cont(b[i + 2]) /\ Utf8From(b, i + 3)
          ELSE IF (x >= 225 /\ x <= 236) \/ x = 238 \/ x = 239 THEN has(2) /\ Cont(b[i + 1]) /\ Cont(b[i + 2]) /\ Utf8From(b, i + 3)
          ELSE IF x = 237 THEN has(2) /\ b[i + 1] >= 128 /\ b[i + 1] <= 159 /\ Cont(b[i + 2]) /\ Utf8From(b, i + 3)
          ELSE IF x = 240 THEN has(3) /\ b[i + 1] >= 144 /\ b[i + 1] <= 191 /\ Cont(b[i + 2]) /\ Cont(b[i + 3]) /\ Utf8From(b, i + 4)
          ELSE IF x >= 241 /\ x <= 243 THEN has(3) /\ Cont(b[i + 1]) /\ Cont(b[i + 2]) /\ Cont(b[i + 3]) /\ Utf8From(b, i + 4)
          ELSE IF x = 244 THEN has(3) /\ b[i + 1] >= 128 /\ b[i + 1] <= 143 /\ Cont(b[i + 2]) /\ Cont(b[i + 3]) /\ Utf8From(b, i + 4)
          ELSE FALSE
ValidUtf8(b) == Utf8From(b, 1)

(* ---- the batch of an append entry ---- *)
(* walk from offset `at` (1-based index of the next record header); records so far in acc *)
RECURSIVE DecodeBatch(_, _, _)
DecodeBatch(b, at, acc) ==
  IF at = Len(b) + 1 THEN [ok |-> TRUE, recs |-> acc]
  ELSE IF Len(b) - at + 1 < 12 THEN [ok |-> FALSE, recs |-> acc]          \* truncated record header
  ELSE IF U32Huge(b, at + 8) THEN [ok |-> FALSE, recs |-> acc]
  ELSE LET n == U32(b, at + 8) IN
         IF Len(b) - (at + 11) < n THEN [ok |-> FALSE, recs |-> acc]      \* payload longer than what is left
         ELSE DecodeBatch(b, at + 12 + n,
                          Append(acc, [pos |-> SubSeq(b, at, at + 7), payload |-> SubSeq(b, at + 12, at + 11 + n)]))

KindOf(tag) == CASE tag = 1 -> "trunc" [] tag = 2 -> "pos" [] tag = 3 -> "del" [] tag = 4 -> "append" [] OTHER -> "none"

Decode(b) ==
  IF Len(b) < 11 THEN None
  ELSE LET tag == b[1]
           qlen == U16(b, 10)
       IN IF KindOf(tag) = "none" THEN None
          ELSE IF Len(b) - 11 < qlen THEN None
          ELSE LET name == SubSeq(b, 12, 11 + qlen)
                   body == SubSeq(b, 12 + qlen, Len(b))
               IN IF ~ValidUtf8(name) THEN None
                  ELSE IF tag = 4 THEN
                         LET d == DecodeBatch(body, 1, <<>>) IN
                           IF d.ok THEN [k |-> "append", q |-> name, pos |-> SubSeq(b, 2, 9), recs |-> d.recs] ELSE None
                  ELSE [k |-> KindOf(tag), q |-> name, pos |-> SubSeq(b, 2, 9), recs |-> <<>>]

(* ---- encoding (what the writer produces) ---- *)
TagOf(k) == CASE k = "trunc" -> 1 [] k = "pos" -> 2 [] k = "del" -> 3 [] k = "append" -> 4

RECURSIVE EncodeBatch(_, _)
EncodeBatch(recs, i) ==
  IF i > Len(recs) THEN <<>>
  ELSE recs[i].pos \o LE32(Len(recs[i].payload)) \o recs[i].payload \o EncodeBatch(recs, i + 1)

Encode(e) == << TagOf(e.k) >> \o e.pos \o LE16(Len(e.q)) \o e.q \o EncodeBatch(e.recs, 1)

(* length of an entry as the planner uses it (WalPlan: RecHdr = 11 + name, BatchHdr = 12) *)
EncodedLen(e) ==
  LET RECURSIVE S(_)
      S(i) == IF i > Len(e.recs) THEN 0 ELSE 12 + Len(e.recs[i].payload) + S(i + 1)
  IN 11 + Len(e.q) + S(1)

(* ---- properties checked by MC_Codec ---- *)
WellFormedEntry(e) ==
  /\ e.k \in {"trunc", "pos", "del", "append"}
  /\ Len(e.pos) = 8 /\ ValidUtf8(e.q) /\ Len(e.q) < 65536
  /\ (e.k # "append" => e.recs = <<>>)
  /\ \A i \in 1..Len(e.recs) : Len(e.recs[i].pos) = 8

RoundTrip(e) == WellFormedEntry(e) => (Decode(Encode(e)) = e /\ Len(Encode(e)) = EncodedLen(e))

(* a decoded entry re-encodes to the bytes it came from, except for the ignored body of non-append entries *)
Canonical(b) ==
  LET d == Decode(b) IN
    d = None \/ (IF d.k = "append" THEN Encode(d) = b ELSE Encode(d) = SubSeq(b, 1, 11 + Len(d.q)))
=============================================================================
