CONSTANTS
  NFiles = 3
  NBlocks = 2
  BlockSize = 5
  HeaderLen = 2
  ReplaySkipsIoErrors = FALSE
  RecoveryGcErrorsIgnored = TRUE
  FaultModes = {"none", "once", "forever"}
SPECIFICATION Spec
INVARIANTS FaultReported Progress ResultSane
PROPERTY Terminates
