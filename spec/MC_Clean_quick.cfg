CONSTANTS
  BlockSize = 8
  HeaderLen = 2
  BlocksPerFile = 2
  RecHdr = 1
  BatchHdr = 1
  Queues = {0, 1}
  MaxOps = 3
  MaxPost = 2
  MaxCrashes = 0
  Policy = "always_flush"
  LossModels = {}
  GcAlwaysSyncs = TRUE
  OpenSizesLast = TRUE
  PayLens = {2, 9}
  BatchSizes = {1, 2}
  AllowExplicit = TRUE
  MaxDamage = 0
  DamageKinds = {}
  CrcQuarantinesBlock = FALSE
  MinOpsBeforeCrash = 0
  WithPersistCalls = FALSE
  WithNoops = FALSE
INIT MCInit
NEXT MCNext
INVARIANTS VerdictOk Refines NextAboveAssigned BatchAtomic FilesBound FilesBoundOpen BytesTrack BufInv ZerosAhead
CHECK_DEADLOCK FALSE
