CONSTANTS
  Queues = {0, 1}
  MaxPos = 5
  MaxCalls = 5
  Pids = {7}
INIT QInit
NEXT QNext
INVARIANTS QWellFormed QNextAboveAssigned QPositionsNeverReused QFrame QProjection QCrashFrame QNoTrace QObservers QTruncate
CHECK_DEADLOCK FALSE
