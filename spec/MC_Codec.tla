------------------------------ MODULE MC_Codec ------------------------------
(* Exhaustive check of Codec.tla over a small domain: every entry built from the parts below     *)
(* round-trips, and every prefix and every single-byte substitution of every valid encoding       *)
(* decodes (Decode is total) to None or to an entry that re-encodes to the bytes it came from.    *)
EXTENDS Codec, TLC

Zeros == <<0, 0, 0, 0, 0, 0, 0, 0>>
Pos1 == <<1, 0, 0, 0, 0, 0, 0, 0>>
PosMax == <<255, 255, 255, 255, 255, 255, 255, 255>>
Positions == {Zeros, Pos1, PosMax}
Names == {<<>>, <<113>>, <<195, 169, 113>>}          \* "", "q", "eq" with an accent
Payloads == {<<>>, <<7>>, <<1, 2, 3>>}
Recs == {<<>>} \cup {<<[pos |-> p, payload |-> y]>> : p \in Positions, y \in Payloads}
             \cup {<<[pos |-> Pos1, payload |-> y1], [pos |-> PosMax, payload |-> y2]>> : y1 \in Payloads, y2 \in Payloads}
Entries == {[k |-> k, q |-> q, pos |-> p, recs |-> <<>>] : k \in {"trunc", "pos", "del"}, q \in Names, p \in Positions}
      \cup {[k |-> "append", q |-> q, pos |-> p, recs |-> r] : q \in Names, p \in Positions, r \in Recs}

Subst == {0, 1, 4, 5, 12, 13, 128, 195, 255}
Mutations(b) == {SubSeq(b, 1, n) : n \in 0..Len(b)}
           \cup {[b EXCEPT ![i] = x] : i \in 1..Len(b), x \in Subst}
           \cup {b \o <<x>> : x \in Subst}

ASSUME \A e \in Entries : RoundTrip(e)
ASSUME \A e \in Entries : \A b \in Mutations(Encode(e)) : Canonical(b)
(* names that are not UTF-8 are rejected; a record length beyond the entry is rejected *)
ASSUME Decode(<<2>> \o Zeros \o LE16(1) \o <<255>>) = None
ASSUME Decode(<<2>> \o Zeros \o LE16(2) \o <<195>>) = None
ASSUME Decode(<<4>> \o Zeros \o LE16(0) \o Zeros \o <<255, 255, 255, 255>>) = None
ASSUME Decode(<<4>> \o Zeros \o LE16(0) \o Zeros \o LE32(2) \o <<9>>) = None
ASSUME PrintT(<<"MC_Codec", "entries", Cardinality(Entries)>>)

VARIABLE x
Init == x = 0
Next == UNCHANGED x
=============================================================================
