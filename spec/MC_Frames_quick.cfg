CONSTANTS
  BlockSize = 8
  HeaderLen = 2
  BlocksPerFile = 2
  Starts = {0,1,2,3,4,5,6,7,8,9,10,11,12,13,14,15,16,17,18,19,20,21,22,23}
  Lens = {0,1,2,3,4,5,6,7,8,11,12,13,17,18,19,25,31,40}
  MaxEntries = 2
INIT Init
NEXT Next
INVARIANTS RoundTrip BytesOk Layout CursorHandOver Additive
CHECK_DEADLOCK FALSE
