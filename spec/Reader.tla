------------------------------- MODULE Reader -------------------------------
(***************************************************************************)
(* The control flow of recovery (MultiRecordLog::open_with_prefs,          *)
(* RecordReader::go_next, FrameReader::read_frame,                         *)
(* go_to_next_block_if_necessary, RollingReader::next_block) as an         *)
(* algorithm, over an image whose content is chosen LAZILY: whenever the   *)
(* reader looks at a header it may find any class of bytes (zeros, an      *)
(* invalid type, an over-long length, a frame whose CRC fails, a valid     *)
(* frame of any type and length), files may hold any number of whole       *)
(* blocks (0 = shorter than one block), and one I/O fault may strike any   *)
(* open / read call, once or for ever.                                     *)
(*                                                                         *)
(* Properties (C10 termination part, C11):                                 *)
(*   Termination     <>(pc = "Done")  under weak fairness                  *)
(*   FaultReported   a fault that struck makes open return IoError         *)
(*   Progress        every replay iteration that does not terminate        *)
(*                   strictly advances (file, block, cursor)               *)
(* The GC pass at the end of open is part of the algorithm: its roll-over   *)
(* opens or creates a file, and that call can fail like any other.         *)
(* ReplaySkipsIoErrors = TRUE models the code before fix 3c4a4a0 (D1):     *)
(* TLC then finds the lasso (persistent fault) and the unreported          *)
(* transient fault.                                                        *)
(***************************************************************************)
EXTENDS Integers, Sequences, FiniteSets, TLC

CONSTANTS NFiles,            \* number of WAL files listed (>= 1)
          NBlocks,           \* blocks per full file
          BlockSize, HeaderLen,
          ReplaySkipsIoErrors,
          RecoveryGcErrorsIgnored,  \* TRUE models seeded change M50 (self-test)
          FaultModes         \* subset of {"none", "once", "forever"}

(* --algorithm Recovery
variables
  nblocks \in [1..NFiles -> 0..NBlocks],   \* whole blocks each file holds
  faultMode \in FaultModes,
  faultArmed = FALSE,        \* the fault has started striking
  struck = FALSE,
  fi = 1, blk = 0, cur = 0,  \* reader position: file index, block, cursor in block
  corrupt = FALSE, within = FALSE,
  result = "none",
  frameRes = "none",         \* outcome of read_frame: "frame" | "corruption" | "io" | "notavailable"
  nbRes = "none",            \* outcome of next_block: "true" | "false" | "io"
  cand = 0,                  \* candidate file in next_block's loop
  iters = 0,
  lastPos = <<0, 0, 0>>, progressOk = TRUE;

define
  \* an I/O call fails: the armed persistent fault, or a fault that decides to strike now
  Measure == <<fi, blk, IF corrupt THEN BlockSize + 1 ELSE cur>>
  LexLess(a, b) == a[1] < b[1] \/ (a[1] = b[1] /\ (a[2] < b[2] \/ (a[2] = b[2] /\ a[3] < b[3])))
end define;

macro io_call(okLabelVar) begin
  \* sets okLabelVar to TRUE (call succeeded) or FALSE (injected failure)
  if faultMode = "forever" /\ faultArmed then
    okLabelVar := FALSE; struck := TRUE;
  elsif faultMode \in {"once", "forever"} /\ ~faultArmed then
    either okLabelVar := TRUE;
    or     okLabelVar := FALSE; faultArmed := TRUE; struck := TRUE;
    end either;
  else
    okLabelVar := TRUE;
  end if;
end macro;

fair process reader = "reader"
variables ok = TRUE, hdr = "none", len = 0, ftype = "none";
begin
ListDir:
  io_call(ok);
  if ~ok then result := "IoError"; goto Done; end if;
OpenFirst:
  io_call(ok);
  if ~ok then result := "IoError"; goto Done; end if;
ReadFirst:
  io_call(ok);
  if ~ok then result := "IoError"; goto Done;
  elsif nblocks[1] = 0 then result := "IoError"; goto Done;   \* read_exact on a short first file: UnexpectedEof
  end if;
Replay:
  \* one iteration of the `loop` in open_with_prefs = one call of read_record
  iters := iters + 1;
GoNext:
  \* RecordReader::go_next: loop over read_frame
  skip;
ReadFrame:
  \* go_to_next_block_if_necessary
  if corrupt \/ (BlockSize - cur) < HeaderLen then
    \* ---- RollingReader::next_block
    NextBlockSameFile:
      io_call(ok);
      if ~ok then frameRes := "io"; goto FrameDone;
      elsif blk + 1 < nblocks[fi] then
        blk := blk + 1; cur := 0; corrupt := FALSE; goto Header;
      else
        cand := fi + 1;
      end if;
    NextFileLoop:
      if cand > NFiles then frameRes := "notavailable"; goto FrameDone; end if;
    OpenNext:
      io_call(ok);
      if ~ok then frameRes := "io"; goto FrameDone; end if;
    ReadNext:
      io_call(ok);
      if ~ok then frameRes := "io"; goto FrameDone;
      elsif nblocks[cand] > 0 then
        fi := cand; blk := 0; cur := 0; corrupt := FALSE; goto Header;
      else
        cand := cand + 1; goto NextFileLoop;
      end if;
  end if;
Header:
  \* get_frame_header + the rest of read_frame, header class chosen lazily
  either \* all zeros: not available
    frameRes := "notavailable";
  or     \* invalid type byte: quarantine the block
    corrupt := TRUE; frameRes := "corruption";
  or     \* valid header, declared length beyond the block: quarantine the block
    cur := cur + HeaderLen; corrupt := TRUE; frameRes := "corruption";
  or     \* valid header, CRC fails: drop the frame only
    with l \in 0..(BlockSize - cur - HeaderLen) do cur := cur + HeaderLen + l; end with;
    frameRes := "corruption";
  or     \* a good frame
    with l \in 0..(BlockSize - cur - HeaderLen), t \in {"Full", "First", "Middle", "Last"} do
      cur := cur + HeaderLen + l; ftype := t;
    end with;
    frameRes := "frame";
  end either;
FrameDone:
  if frameRes = "frame" then
    if (within \/ ftype \in {"Full", "First"}) /\ ftype \in {"Full", "Last"} then
      within := FALSE;
      \* an entry is delivered: replay applies it; an append in the past aborts with Corruption
      either goto CheckProgress;
      or result := "Corruption"; goto Done;
      end either;
    else
      within := within \/ ftype \in {"Full", "First"};
      goto ReadFrame;
    end if;
  elsif frameRes = "corruption" then
    within := FALSE;
    goto CheckProgress;             \* read_record returned Err(Corruption): `continue`
  elsif frameRes = "io" then
    within := FALSE;
    if ReplaySkipsIoErrors then goto CheckProgress;   \* the pre-fix code: `continue`
    else result := "IoError"; goto Done;
    end if;
  else \* not available: replay ends
    goto IntoWriter;
  end if;
CheckProgress:
  \* every completed iteration of the replay loop must have advanced the reader
  progressOk := progressOk /\ LexLess(lastPos, Measure);
  lastPos := Measure;
  goto Replay;
IntoWriter:
  io_call(ok);                      \* the seek
  if ~ok then result := "IoError"; goto Done; end if;
RecoveryGc:
  \* the GC pass that ends open_with_prefs (run_gc_if_necessary): nothing to collect, or position
  \* entries are written first - which fit in the current file, or make the writer roll over into
  \* the next file, which recovery then has to OPEN (it exists: a crash after its creation) or to
  \* CREATE; both are file opens that can fail during recovery.
  either result := "Ok"; goto Done;             \* no unused file / entries fit
  or     skip;                                  \* roll-over
  end either;
GcOpenOrCreate:
  io_call(ok);
  if ~ok /\ ~RecoveryGcErrorsIgnored then result := "IoError";
  else result := "Ok";                          \* (ignored = seeded change M50)
  end if;
end process;
end algorithm; *)
\* BEGIN TRANSLATION
VARIABLES pc, nblocks, faultMode, faultArmed, struck, fi, blk, cur, corrupt, 
          within, result, frameRes, nbRes, cand, iters, lastPos, progressOk

(* define statement *)
Measure == <<fi, blk, IF corrupt THEN BlockSize + 1 ELSE cur>>
LexLess(a, b) == a[1] < b[1] \/ (a[1] = b[1] /\ (a[2] < b[2] \/ (a[2] = b[2] /\ a[3] < b[3])))

VARIABLES ok, hdr, len, ftype

vars == << pc, nblocks, faultMode, faultArmed, struck, fi, blk, cur, corrupt, 
           within, result, frameRes, nbRes, cand, iters, lastPos, progressOk, 
           ok, hdr, len, ftype >>

ProcSet == {"reader"}

Init == (* Global variables *)
        /\ nblocks \in [1..NFiles -> 0..NBlocks]
        /\ faultMode \in FaultModes
        /\ faultArmed = FALSE
        /\ struck = FALSE
        /\ fi = 1
        /\ blk = 0
        /\ cur = 0
        /\ corrupt = FALSE
        /\ within = FALSE
        /\ result = "none"
        /\ frameRes = "none"
        /\ nbRes = "none"
        /\ cand = 0
        /\ iters = 0
        /\ lastPos = <<0, 0, 0>>
        /\ progressOk = TRUE
        (* Process reader *)
        /\ ok = TRUE
        /\ hdr = "none"
        /\ len = 0
        /\ ftype = "none"
        /\ pc = [self \in ProcSet |-> "ListDir"]

ListDir == /\ pc["reader"] = "ListDir"
           /\ IF faultMode = "forever" /\ faultArmed
                 THEN /\ ok' = FALSE
                      /\ struck' = TRUE
                      /\ UNCHANGED faultArmed
                 ELSE /\ IF faultMode \in {"once", "forever"} /\ ~faultArmed
                            THEN /\ \/ /\ ok' = TRUE
                                       /\ UNCHANGED <<faultArmed, struck>>
                                    \/ /\ ok' = FALSE
                                       /\ faultArmed' = TRUE
                                       /\ struck' = TRUE
                            ELSE /\ ok' = TRUE
                                 /\ UNCHANGED << faultArmed, struck >>
           /\ IF ~ok'
                 THEN /\ result' = "IoError"
                      /\ pc' = [pc EXCEPT !["reader"] = "Done"]
                 ELSE /\ pc' = [pc EXCEPT !["reader"] = "OpenFirst"]
                      /\ UNCHANGED result
           /\ UNCHANGED << nblocks, faultMode, fi, blk, cur, corrupt, within, 
                           frameRes, nbRes, cand, iters, lastPos, progressOk, 
                           hdr, len, ftype >>

OpenFirst == /\ pc["reader"] = "OpenFirst"
             /\ IF faultMode = "forever" /\ faultArmed
                   THEN /\ ok' = FALSE
                        /\ struck' = TRUE
                        /\ UNCHANGED faultArmed
                   ELSE /\ IF faultMode \in {"once", "forever"} /\ ~faultArmed
                              THEN /\ \/ /\ ok' = TRUE
                                         /\ UNCHANGED <<faultArmed, struck>>
                                      \/ /\ ok' = FALSE
                                         /\ faultArmed' = TRUE
                                         /\ struck' = TRUE
                              ELSE /\ ok' = TRUE
                                   /\ UNCHANGED << faultArmed, struck >>
             /\ IF ~ok'
                   THEN /\ result' = "IoError"
                        /\ pc' = [pc EXCEPT !["reader"] = "Done"]
                   ELSE /\ pc' = [pc EXCEPT !["reader"] = "ReadFirst"]
                        /\ UNCHANGED result
             /\ UNCHANGED << nblocks, faultMode, fi, blk, cur, corrupt, within, 
                             frameRes, nbRes, cand, iters, lastPos, progressOk, 
                             hdr, len, ftype >>

ReadFirst == /\ pc["reader"] = "ReadFirst"
             /\ IF faultMode = "forever" /\ faultArmed
                   THEN /\ ok' = FALSE
                        /\ struck' = TRUE
                        /\ UNCHANGED faultArmed
                   ELSE /\ IF faultMode \in {"once", "forever"} /\ ~faultArmed
                              THEN /\ \/ /\ ok' = TRUE
                                         /\ UNCHANGED <<faultArmed, struck>>
                                      \/ /\ ok' = FALSE
                                         /\ faultArmed' = TRUE
                                         /\ struck' = TRUE
                              ELSE /\ ok' = TRUE
                                   /\ UNCHANGED << faultArmed, struck >>
             /\ IF ~ok'
                   THEN /\ result' = "IoError"
                        /\ pc' = [pc EXCEPT !["reader"] = "Done"]
                   ELSE /\ IF nblocks[1] = 0
                              THEN /\ result' = "IoError"
                                   /\ pc' = [pc EXCEPT !["reader"] = "Done"]
                              ELSE /\ pc' = [pc EXCEPT !["reader"] = "Replay"]
                                   /\ UNCHANGED result
             /\ UNCHANGED << nblocks, faultMode, fi, blk, cur, corrupt, within, 
                             frameRes, nbRes, cand, iters, lastPos, progressOk, 
                             hdr, len, ftype >>

Replay == /\ pc["reader"] = "Replay"
          /\ iters' = iters + 1
          /\ pc' = [pc EXCEPT !["reader"] = "GoNext"]
          /\ UNCHANGED << nblocks, faultMode, faultArmed, struck, fi, blk, cur, 
                          corrupt, within, result, frameRes, nbRes, cand, 
                          lastPos, progressOk, ok, hdr, len, ftype >>

GoNext == /\ pc["reader"] = "GoNext"
          /\ TRUE
          /\ pc' = [pc EXCEPT !["reader"] = "ReadFrame"]
          /\ UNCHANGED << nblocks, faultMode, faultArmed, struck, fi, blk, cur, 
                          corrupt, within, result, frameRes, nbRes, cand, 
                          iters, lastPos, progressOk, ok, hdr, len, ftype >>

ReadFrame == /\ pc["reader"] = "ReadFrame"
             /\ IF corrupt \/ (BlockSize - cur) < HeaderLen
                   THEN /\ pc' = [pc EXCEPT !["reader"] = "NextBlockSameFile"]
                   ELSE /\ pc' = [pc EXCEPT !["reader"] = "Header"]
             /\ UNCHANGED << nblocks, faultMode, faultArmed, struck, fi, blk, 
                             cur, corrupt, within, result, frameRes, nbRes, 
                             cand, iters, lastPos, progressOk, ok, hdr, len, 
                             ftype >>

NextBlockSameFile == /\ pc["reader"] = "NextBlockSameFile"
                     /\ IF faultMode = "forever" /\ faultArmed
                           THEN /\ ok' = FALSE
                                /\ struck' = TRUE
                                /\ UNCHANGED faultArmed
                           ELSE /\ IF faultMode \in {"once", "forever"} /\ ~faultArmed
                                      THEN /\ \/ /\ ok' = TRUE
                                                 /\ UNCHANGED <<faultArmed, struck>>
                                              \/ /\ ok' = FALSE
                                                 /\ faultArmed' = TRUE
                                                 /\ struck' = TRUE
                                      ELSE /\ ok' = TRUE
                                           /\ UNCHANGED << faultArmed, struck >>
                     /\ IF ~ok'
                           THEN /\ frameRes' = "io"
                                /\ pc' = [pc EXCEPT !["reader"] = "FrameDone"]
                                /\ UNCHANGED << blk, cur, corrupt, cand >>
                           ELSE /\ IF blk + 1 < nblocks[fi]
                                      THEN /\ blk' = blk + 1
                                           /\ cur' = 0
                                           /\ corrupt' = FALSE
                                           /\ pc' = [pc EXCEPT !["reader"] = "Header"]
                                           /\ cand' = cand
                                      ELSE /\ cand' = fi + 1
                                           /\ pc' = [pc EXCEPT !["reader"] = "NextFileLoop"]
                                           /\ UNCHANGED << blk, cur, corrupt >>
                                /\ UNCHANGED frameRes
                     /\ UNCHANGED << nblocks, faultMode, fi, within, result, 
                                     nbRes, iters, lastPos, progressOk, hdr, 
                                     len, ftype >>

NextFileLoop == /\ pc["reader"] = "NextFileLoop"
                /\ IF cand > NFiles
                      THEN /\ frameRes' = "notavailable"
                           /\ pc' = [pc EXCEPT !["reader"] = "FrameDone"]
                      ELSE /\ pc' = [pc EXCEPT !["reader"] = "OpenNext"]
                           /\ UNCHANGED frameRes
                /\ UNCHANGED << nblocks, faultMode, faultArmed, struck, fi, 
                                blk, cur, corrupt, within, result, nbRes, cand, 
                                iters, lastPos, progressOk, ok, hdr, len, 
                                ftype >>

OpenNext == /\ pc["reader"] = "OpenNext"
            /\ IF faultMode = "forever" /\ faultArmed
                  THEN /\ ok' = FALSE
                       /\ struck' = TRUE
                       /\ UNCHANGED faultArmed
                  ELSE /\ IF faultMode \in {"once", "forever"} /\ ~faultArmed
                             THEN /\ \/ /\ ok' = TRUE
                                        /\ UNCHANGED <<faultArmed, struck>>
                                     \/ /\ ok' = FALSE
                                        /\ faultArmed' = TRUE
                                        /\ struck' = TRUE
                             ELSE /\ ok' = TRUE
                                  /\ UNCHANGED << faultArmed, struck >>
            /\ IF ~ok'
                  THEN /\ frameRes' = "io"
                       /\ pc' = [pc EXCEPT !["reader"] = "FrameDone"]
                  ELSE /\ pc' = [pc EXCEPT !["reader"] = "ReadNext"]
                       /\ UNCHANGED frameRes
            /\ UNCHANGED << nblocks, faultMode, fi, blk, cur, corrupt, within, 
                            result, nbRes, cand, iters, lastPos, progressOk, 
                            hdr, len, ftype >>

ReadNext == /\ pc["reader"] = "ReadNext"
            /\ IF faultMode = "forever" /\ faultArmed
                  THEN /\ ok' = FALSE
                       /\ struck' = TRUE
                       /\ UNCHANGED faultArmed
                  ELSE /\ IF faultMode \in {"once", "forever"} /\ ~faultArmed
                             THEN /\ \/ /\ ok' = TRUE
                                        /\ UNCHANGED <<faultArmed, struck>>
                                     \/ /\ ok' = FALSE
                                        /\ faultArmed' = TRUE
                                        /\ struck' = TRUE
                             ELSE /\ ok' = TRUE
                                  /\ UNCHANGED << faultArmed, struck >>
            /\ IF ~ok'
                  THEN /\ frameRes' = "io"
                       /\ pc' = [pc EXCEPT !["reader"] = "FrameDone"]
                       /\ UNCHANGED << fi, blk, cur, corrupt, cand >>
                  ELSE /\ IF nblocks[cand] > 0
                             THEN /\ fi' = cand
                                  /\ blk' = 0
                                  /\ cur' = 0
                                  /\ corrupt' = FALSE
                                  /\ pc' = [pc EXCEPT !["reader"] = "Header"]
                                  /\ cand' = cand
                             ELSE /\ cand' = cand + 1
                                  /\ pc' = [pc EXCEPT !["reader"] = "NextFileLoop"]
                                  /\ UNCHANGED << fi, blk, cur, corrupt >>
                       /\ UNCHANGED frameRes
            /\ UNCHANGED << nblocks, faultMode, within, result, nbRes, iters, 
                            lastPos, progressOk, hdr, len, ftype >>

Header == /\ pc["reader"] = "Header"
          /\ \/ /\ frameRes' = "notavailable"
                /\ UNCHANGED <<cur, corrupt, ftype>>
             \/ /\ corrupt' = TRUE
                /\ frameRes' = "corruption"
                /\ UNCHANGED <<cur, ftype>>
             \/ /\ cur' = cur + HeaderLen
                /\ corrupt' = TRUE
                /\ frameRes' = "corruption"
                /\ ftype' = ftype
             \/ /\ \E l \in 0..(BlockSize - cur - HeaderLen):
                     cur' = cur + HeaderLen + l
                /\ frameRes' = "corruption"
                /\ UNCHANGED <<corrupt, ftype>>
             \/ /\ \E l \in 0..(BlockSize - cur - HeaderLen):
                     \E t \in {"Full", "First", "Middle", "Last"}:
                       /\ cur' = cur + HeaderLen + l
                       /\ ftype' = t
                /\ frameRes' = "frame"
                /\ UNCHANGED corrupt
          /\ pc' = [pc EXCEPT !["reader"] = "FrameDone"]
          /\ UNCHANGED << nblocks, faultMode, faultArmed, struck, fi, blk, 
                          within, result, nbRes, cand, iters, lastPos, 
                          progressOk, ok, hdr, len >>

FrameDone == /\ pc["reader"] = "FrameDone"
             /\ IF frameRes = "frame"
                   THEN /\ IF (within \/ ftype \in {"Full", "First"}) /\ ftype \in {"Full", "Last"}
                              THEN /\ within' = FALSE
                                   /\ \/ /\ pc' = [pc EXCEPT !["reader"] = "CheckProgress"]
                                         /\ UNCHANGED result
                                      \/ /\ result' = "Corruption"
                                         /\ pc' = [pc EXCEPT !["reader"] = "Done"]
                              ELSE /\ within' = (within \/ ftype \in {"Full", "First"})
                                   /\ pc' = [pc EXCEPT !["reader"] = "ReadFrame"]
                                   /\ UNCHANGED result
                   ELSE /\ IF frameRes = "corruption"
                              THEN /\ within' = FALSE
                                   /\ pc' = [pc EXCEPT !["reader"] = "CheckProgress"]
                                   /\ UNCHANGED result
                              ELSE /\ IF frameRes = "io"
                                         THEN /\ within' = FALSE
                                              /\ IF ReplaySkipsIoErrors
                                                    THEN /\ pc' = [pc EXCEPT !["reader"] = "CheckProgress"]
                                                         /\ UNCHANGED result
                                                    ELSE /\ result' = "IoError"
                                                         /\ pc' = [pc EXCEPT !["reader"] = "Done"]
                                         ELSE /\ pc' = [pc EXCEPT !["reader"] = "IntoWriter"]
                                              /\ UNCHANGED << within, result >>
             /\ UNCHANGED << nblocks, faultMode, faultArmed, struck, fi, blk, 
                             cur, corrupt, frameRes, nbRes, cand, iters, 
                             lastPos, progressOk, ok, hdr, len, ftype >>

CheckProgress == /\ pc["reader"] = "CheckProgress"
                 /\ progressOk' = (progressOk /\ LexLess(lastPos, Measure))
                 /\ lastPos' = Measure
                 /\ pc' = [pc EXCEPT !["reader"] = "Replay"]
                 /\ UNCHANGED << nblocks, faultMode, faultArmed, struck, fi, 
                                 blk, cur, corrupt, within, result, frameRes, 
                                 nbRes, cand, iters, ok, hdr, len, ftype >>

IntoWriter == /\ pc["reader"] = "IntoWriter"
              /\ IF faultMode = "forever" /\ faultArmed
                    THEN /\ ok' = FALSE
                         /\ struck' = TRUE
                         /\ UNCHANGED faultArmed
                    ELSE /\ IF faultMode \in {"once", "forever"} /\ ~faultArmed
                               THEN /\ \/ /\ ok' = TRUE
                                          /\ UNCHANGED <<faultArmed, struck>>
                                       \/ /\ ok' = FALSE
                                          /\ faultArmed' = TRUE
                                          /\ struck' = TRUE
                               ELSE /\ ok' = TRUE
                                    /\ UNCHANGED << faultArmed, struck >>
              /\ IF ~ok'
                    THEN /\ result' = "IoError"
                         /\ pc' = [pc EXCEPT !["reader"] = "Done"]
                    ELSE /\ pc' = [pc EXCEPT !["reader"] = "RecoveryGc"]
                         /\ UNCHANGED result
              /\ UNCHANGED << nblocks, faultMode, fi, blk, cur, corrupt, 
                              within, frameRes, nbRes, cand, iters, lastPos, 
                              progressOk, hdr, len, ftype >>

RecoveryGc == /\ pc["reader"] = "RecoveryGc"
              /\ \/ /\ result' = "Ok"
                    /\ pc' = [pc EXCEPT !["reader"] = "Done"]
                 \/ /\ TRUE
                    /\ pc' = [pc EXCEPT !["reader"] = "GcOpenOrCreate"]
                    /\ UNCHANGED result
              /\ UNCHANGED << nblocks, faultMode, faultArmed, struck, fi, blk, 
                              cur, corrupt, within, frameRes, nbRes, cand, 
                              iters, lastPos, progressOk, ok, hdr, len, ftype >>

GcOpenOrCreate == /\ pc["reader"] = "GcOpenOrCreate"
                  /\ IF faultMode = "forever" /\ faultArmed
                        THEN /\ ok' = FALSE
                             /\ struck' = TRUE
                             /\ UNCHANGED faultArmed
                        ELSE /\ IF faultMode \in {"once", "forever"} /\ ~faultArmed
                                   THEN /\ \/ /\ ok' = TRUE
                                              /\ UNCHANGED <<faultArmed, struck>>
                                           \/ /\ ok' = FALSE
                                              /\ faultArmed' = TRUE
                                              /\ struck' = TRUE
                                   ELSE /\ ok' = TRUE
                                        /\ UNCHANGED << faultArmed, struck >>
                  /\ IF ~ok' /\ ~RecoveryGcErrorsIgnored
                        THEN /\ result' = "IoError"
                        ELSE /\ result' = "Ok"
                  /\ pc' = [pc EXCEPT !["reader"] = "Done"]
                  /\ UNCHANGED << nblocks, faultMode, fi, blk, cur, corrupt, 
                                  within, frameRes, nbRes, cand, iters, 
                                  lastPos, progressOk, hdr, len, ftype >>

reader == ListDir \/ OpenFirst \/ ReadFirst \/ Replay \/ GoNext
             \/ ReadFrame \/ NextBlockSameFile \/ NextFileLoop \/ OpenNext
             \/ ReadNext \/ Header \/ FrameDone \/ CheckProgress
             \/ IntoWriter \/ RecoveryGc \/ GcOpenOrCreate

(* Allow infinite stuttering to prevent deadlock on termination. *)
Terminating == /\ \A self \in ProcSet: pc[self] = "Done"
               /\ UNCHANGED vars

Next == reader
           \/ Terminating

Spec == /\ Init /\ [][Next]_vars
        /\ WF_vars(reader)

Termination == <>(\A self \in ProcSet: pc[self] = "Done")

\* END TRANSLATION

Terminates == <>(pc["reader"] = "Done")
FaultReported == (pc["reader"] = "Done" /\ struck) => result = "IoError"
Progress == progressOk
ResultSane == pc["reader"] = "Done" => result \in {"Ok", "IoError", "Corruption"}
=============================================================================
