CONSTANTS
  BlockSize = 8
  HeaderLen = 2
  BlocksPerFile = 2
  RecHdr = 1
  BatchHdr = 1
  Queues = {0, 1}
  MaxOps = 4
  MaxPost = 1
  MaxCrashes = 1
  Policy = "always_flush"
  LossModels = {"process"}
  GcAlwaysSyncs = TRUE
  OpenSizesLast = TRUE
  PayLens = {2, 9}
  BatchSizes = {1}
  AllowExplicit = FALSE
  MaxDamage = 0
  DamageKinds = {}
  CrcQuarantinesBlock = FALSE
  MinOpsBeforeCrash = 0
  WithPersistCalls = FALSE
  WithNoops = FALSE
INIT MCInit
NEXT MCNext
INVARIANTS VerdictOk Refines NextAboveAssigned BatchAtomic FilesBound FilesBoundOpen BytesTrack BufInv ZerosAhead
CHECK_DEADLOCK FALSE
