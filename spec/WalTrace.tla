------------------------------ MODULE WalTrace ------------------------------
(***************************************************************************)
(* Trace specification: checks executions recorded from the real library   *)
(* (by /verif/harness) against the specification.                          *)
(*                                                                         *)
(* Three layers (DESIGN 3.4):                                              *)
(*  1 environment: QueueMap applied to the recorded calls gives, at every  *)
(*    line, the abstract state the API promised so far (ctx.qm), the call  *)
(*    in flight (ctx.cur) and what has been promised durable (ctx.pendP /  *)
(*    ctx.pendW);                                                          *)
(*  2 monitors: one family of predicates per property, evaluated on the    *)
(*    OBSERVED values; a failed monitor prints <<"VIOL", property, line,   *)
(*    message>> and the run continues, so that one run reports everything; *)
(*  3 conformance: the recorded I/O effects of each call are compared with *)
(*    the plan Wal.tla's operators compute from the observed pre-state; a  *)
(*    difference prints <<"DRIFT", ...>> and is not a violation.           *)
(*                                                                         *)
(* The trace is fully logged, so the search is linear: one state per line. *)
(***************************************************************************)
EXTENDS QueueMap, WalPlan, Codec, TLC, TLCExt, Json, IOUtils

Rec == ndJsonDeserialize(IOEnv.TRACE)
NLines == Len(Rec)

VARIABLES l,        \* next line to consume
          ctx,      \* environment + bookkeeping of the current run
          saved,    \* context saved while a crash continuation is validated
          refObs,   \* C14: observations of the reference run of a group
          nviol     \* number of violations reported so far
tvars == <<l, ctx, saved, refObs, nviol>>

-----------------------------------------------------------------------------
(* Helpers *)

SeqSum(s) == LET RECURSIVE S(_)
                 S(n) == IF n = 0 THEN 0 ELSE S(n - 1) + s[n]
             IN S(Len(s))

QIds(c) == 0..(c.nq - 1)

EmptyQm(nq) == [q \in 0..(nq - 1) |-> Absent]

(* Abstract state observed in a state record (public API only). *)
StAbs(st, nq) ==
  [q \in 0..(nq - 1) |->
     LET es == {i \in 1..Len(st.qs) : st.qs[i].q = q} IN
       IF es = {} THEN Absent
       ELSE LET e == st.qs[CHOOSE i \in es : TRUE] IN Q(e.recs, e.next)]

CallOf(r) == [op |-> r.op, q |-> r.q, pos |-> r.pos, batch |-> r.batch, p |-> r.p]

AlwaysPolicy(p) == p \in {"always_flush", "always_fsync"}

(* Does the return of call c (which really executed) carry a persistence   *)
(* promise for loss model m?  (C03's statement, nothing more.)             *)
Promise(m, policy, c, fsync) ==
  \/ c.op \in {"create", "delete"}
  \/ c.op = "persist" /\ (m = "process" \/ fsync = 1)
  \/ c.op \in {"append", "truncate"} /\
       (policy = "always_fsync" \/ (policy = "always_flush" /\ m = "process"))

InitCtx(r) ==
  [ run |-> r.id, script |-> r.script, policy |-> r.policy, nq |-> r.nq, qlen |-> r.qlen,
    c14 |-> r.c14,
    qm |-> EmptyQm(r.nq), asg |-> [q \in 0..(r.nq - 1) |-> -1],
    cur |-> NoCall, curFsync |-> 0,
    pendP |-> << [st |-> EmptyQm(r.nq), op |-> NoCall] >>,
    pendW |-> << [st |-> EmptyQm(r.nq), op |-> NoCall] >>,
    hasPrev |-> FALSE, prevQs |-> <<>>, prevW |-> <<0, 0, 0>>, prevFiles |-> <<>>,
    prevMem |-> <<0, 0>>, prevTrk |-> <<>>, prevSnap |-> <<>>,
    attr |-> [q \in 0..(r.nq - 1) |-> <<>>],
    batches |-> <<>>, embeds |-> {},
    crashfree |-> r.prepop = 0, sub |-> FALSE, subprops |-> {}, step |-> 0, dead |-> FALSE,
    amb |-> FALSE ]

NoCtx == [run |-> -1]

WithPrev(c, st) ==
  [c EXCEPT !.hasPrev = TRUE, !.prevQs = st.qs, !.prevW = st.w, !.prevFiles = st.files,
            !.prevMem = st.mem, !.prevTrk = st.trk, !.prevSnap = st.snap]

-----------------------------------------------------------------------------
(* Monitors.  Each returns a set of <<property, message>> pairs.            *)

(* --- state conformance (C05 live; C01 when evaluated after a restart) --- *)
StateMismatch(st, qm, c) ==
  LET nq == c.nq
      existing == {q \in 0..(nq - 1) : qm[q].a}
      entryBad(e) ==
         \/ e.q < 0 \/ e.q >= nq
         \/ ~qm[e.q].a
         \/ e.recs # qm[e.q].recs
         \/ e.next # qm[e.q].next
         \/ e.last # LastPosition(qm[e.q])
         \/ e.lastrec # LastRecord(qm[e.q])
         \/ e.sumok # 1 \/ e.sumend # LastPosition(qm[e.q])
      probeBad(p) ==
         \/ p.panic # 0
         \/ p.miss = 1 /\ qm[p.q].a
         \/ p.miss = 0 /\ (~qm[p.q].a \/ p.res # RangeOf(qm[p.q], p.lo, p.hi))
  IN    {"queue set differs" : x \in {1} \cap
            (IF \/ st.unk # 0 \/ st.sumextra # 0 \/ Len(st.qs) # Cardinality(existing)
                \/ \E q \in 0..(nq - 1) : st.ex[q + 1] # (IF qm[q].a THEN 1 ELSE 0)
             THEN {1} ELSE {})}
   \cup {"queue content differs" : i \in {i \in 1..Len(st.qs) : entryBad(st.qs[i])}}
   \cup {"range result differs" : i \in {i \in 1..Len(st.rq) : probeBad(st.rq[i])}}

(* --- result conformance (C05) --- *)
ResultMismatch(res, qm, call) ==
  LET exp == Result(qm, call) IN
    IF res.k # exp.k THEN {"result kind " \o res.k \o " expected " \o exp.k}
    ELSE IF res.k = "ok" /\ (res.last # exp.last \/ res.evicted # exp.evicted)
         THEN {"positions / eviction count differ"} ELSE {}

(* --- C13: rejected and no-op calls leave no trace --- *)
IoTouches(io) == {i \in 1..Len(io) : io[i].e \in {"W", "CR", "SL", "UL"}}
NoTraceViol(r, c) ==
  IF ~IsRejectOrNoop(c.qm, c.cur) THEN {}
  ELSE  {"rejected/no-op call touched the WAL" : i \in IoTouches(r.io)}
   \* bytes of EARLIER calls still in the BufWriter (policies that do not flush per call): handing them
   \* to the OS changes the contents of the WAL files
   \cup (IF c.hasPrev /\ c.prevW[3] > 0 /\ \E i \in 1..Len(r.io) : r.io[i].e = "FL"
         THEN {"rejected/no-op call flushed buffered bytes of earlier calls into the WAL files"} ELSE {})
   \cup (IF r.res.k \in {"ok"} /\ r.res.wal # 0 THEN {"no-op reported wal_bytes_written > 0"} ELSE {})
   \cup (IF "st" \in DOMAIN r /\ c.hasPrev /\
            (r.st.qs # c.prevQs \/ r.st.w[1] # c.prevW[1] \/ r.st.w[2] # c.prevW[2]
               \/ r.st.files # c.prevFiles)
         THEN {"rejected/no-op call changed state, cursor or files"} ELSE {})

(* --- C15: wal_bytes_written = bytes really appended --- *)
WBytes(io) == LET RECURSIVE S(_)
                  S(n) == IF n = 0 THEN 0 ELSE S(n - 1) + (IF io[n].e = "W" THEN io[n].n ELSE 0)
              IN S(Len(io))
StreamPos(w) == w[1] * FileSize + w[2]
BytesViol(r, c) ==
  IF c.cur.op \in {"restart", "persist", "none"} THEN {}
  ELSE IF r.res.k \in {"missing", "exists", "past"} THEN
     \* a rejected call reports no byte count: the running sum tracks the cursor only if it wrote nothing
     (IF WBytes(r.io) # 0 \/ ("st" \in DOMAIN r /\ c.hasPrev /\ c.crashfree /\ StreamPos(r.st.w) # StreamPos(c.prevW))
      THEN {"a call that returned an error (no byte count) wrote to the WAL: the sum of reported bytes no longer tracks the cursor"} ELSE {})
  ELSE IF r.res.k # "ok" THEN {}
  ELSE  (IF r.res.wal # WBytes(r.io) THEN {"wal_bytes_written differs from bytes written"} ELSE {})
   \cup (IF "st" \in DOMAIN r /\ c.hasPrev /\ c.crashfree /\ StreamPos(r.st.w) - StreamPos(c.prevW) # r.res.wal
         THEN {"wal_bytes_written differs from cursor advance"} ELSE {})
   \cup (IF (r.res.wal = 0) # (IoTouches(r.io) = {}) THEN {"wal_bytes_written is 0 iff nothing written fails"} ELSE {})

(* --- C16: memory accounting --- *)
MemSlackPerRecord == 64
NameBytes(qm, c) == SeqSum([i \in 1..c.nq |-> IF qm[i - 1].a THEN c.qlen[i] ELSE 0])
MemViol(r, c, qm2) ==
  IF ~("st" \in DOMAIN r) THEN {}
  ELSE LET used == r.st.mem[1]
           alloc == r.st.mem[2]
           names == NameBytes(qm2, c)
           pay == PayloadBytes(qm2, QIds(c))
           n == NumRecords(qm2, QIds(c))
       IN  (IF used < names + pay THEN {"memory_used below retained payload + names"} ELSE {})
      \cup (IF used > names + pay + MemSlackPerRecord * n THEN {"memory_used above bound"} ELSE {})
      \cup (IF used > alloc THEN {"memory_used exceeds memory_allocated"} ELSE {})
      \cup (IF n = 0 /\ used # names THEN {"memory not back to names-only baseline"} ELSE {})
      \cup (IF c.cur.op = "truncate" /\ c.hasPrev /\ r.res.k = "ok" /\ c.qm[c.cur.q].a THEN
              LET before == PayloadBytes(c.qm, QIds(c))
                  evictedBytes == before - pay IN
                IF c.prevMem[1] - used < evictedBytes THEN {"truncate did not release evicted bytes"} ELSE {}
            ELSE {})

(* --- C04: positions never regress or get reused --- *)
PosViolEnd(r, c) ==
  IF c.cur.op = "append" /\ r.res.k = "ok" /\ r.res.last # -1 /\ c.cur.q >= 0 /\ c.cur.q < c.nq THEN
     IF r.res.last - Len(c.cur.batch) + 1 <= c.asg[c.cur.q]
     THEN {"append returned a position already assigned"} ELSE {}
  ELSE {}
PosViolState(st, asg, c) ==
  {"next position not above an assigned position" :
     i \in {i \in 1..Len(st.qs) : st.qs[i].q >= 0 /\ st.qs[i].q < c.nq /\ st.qs[i].next <= asg[st.qs[i].q]}}
(* a queue that still exists according to the completed calls, has had positions assigned, and is *)
(* gone: there is nothing left for its automatic positions to continue from                       *)
PosViolGone(st, asg, qmExp, c) ==
  {"a queue with assigned positions vanished (its next position is lost)" :
     q \in {q \in QIds(c) : qmExp[q].a /\ asg[q] >= 0 /\ st.ex[q + 1] = 0}}

(* --- C06: files reclaimed --- *)
SeqMin(s) == LET RECURSIVE M(_)
                 M(n) == IF n = 1 THEN s[1] ELSE QmMin(M(n - 1), s[n])
             IN M(Len(s))
(* the last n elements (all of s when it is shorter: the model may already have parted from a changed code) *)
LastN(s, n) == IF n >= Len(s) THEN s ELSE SubSeq(s, Len(s) - n + 1, Len(s))
OldestAttr(attr, c) ==
  LET fs == UNION { {attr[q][i] : i \in 1..Len(attr[q])} : q \in QIds(c) } IN
    IF fs = {} THEN -1 ELSE CHOOSE f \in fs : \A g \in fs : f <= g
FilesViol(r, c, attr2, fileAtStart) ==
  IF ~c.crashfree \/ ~("st" \in DOMAIN r) \/ r.res.k # "ok" THEN {}
  ELSE LET fs == r.st.files
           w == r.st.w[1]
           oa == OldestAttr(attr2, c)
           bound == IF oa = -1 THEN fileAtStart ELSE QmMin(oa, fileAtStart)
       IN  (IF Len(fs) = 0 \/ fs[Len(fs)] # w \/ \E i \in 1..(Len(fs) - 1) : fs[i + 1] # fs[i] + 1
            THEN {"WAL files are not a contiguous run ending at the writer's file"} ELSE {})
      \cup (IF Len(fs) > 0 /\ fs[1] < bound THEN {"a WAL file older than every retained record survives"} ELSE {})
      \cup (IF r.st.disk # Len(fs) * FileSize \/ ("dsum" \in DOMAIN r.st /\ r.st.disk # r.st.dsum)
            THEN {"disk_used_bytes differs from the files' total size"} ELSE {})

(* C06 "and after open", for an open that recovers a process-crash image of a crash-free history.      *)
(* Retained records keep the attribution they had before the crash (records of a recovered in-flight   *)
(* append: the file being written when the call began); the file "being written when open began" is    *)
(* the one in which recovery leaves the writer before its own GC pass (the seek event of the recovery). *)
FilesViolCrash(r, c) ==
  IF r.out # "ok" \/ ~c.crashfree \/ r.model # "process" \/ ~c.hasPrev THEN {}
  ELSE LET x == StAbs(r.st, c.nq)
           fileOf(q, rec) ==
              LET is == IF c.qm[q].a THEN {i \in 1..Len(c.qm[q].recs) : c.qm[q].recs[i] = rec /\ i <= Len(c.attr[q])} ELSE {}
              IN IF is = {} THEN c.prevW[1] ELSE c.attr[q][CHOOSE i \in is : TRUE]
           used == UNION { {fileOf(q, x[q].recs[j]) : j \in 1..Len(x[q].recs)} : q \in {q \in QIds(c) : x[q].a} }
           seeks == {i \in 1..Len(r.io) : r.io[i].e = "SK"}
           resume == IF seeks = {} THEN -1 ELSE r.io[CHOOSE i \in seeks : \A j \in seeks : i <= j].f
           all == used \cup (IF resume = -1 THEN {} ELSE {resume})
           bound == IF all = {} THEN -1 ELSE CHOOSE f \in all : \A g \in all : f <= g
           fs == r.st.files
           w == r.st.w[1]
           \* the implementation's own attribution (snapshot hook) of some retained record is older than the
           \* file the record was written into
           misattributed ==
              \E i \in 1..Len(r.st.snap) :
                 LET e == r.st.snap[i] IN
                   e.q \in QIds(c) /\ x[e.q].a /\
                   \E j \in 1..Len(e.recs) :
                      /\ e.recs[j][3] # -1
                      /\ \E k \in 1..Len(x[e.q].recs) :
                            RPos(x[e.q].recs[k]) = e.recs[j][1] /\ e.recs[j][3] < fileOf(e.q, x[e.q].recs[k])
       IN  (IF Len(fs) = 0 \/ fs[Len(fs)] # w \/ \E i \in 1..(Len(fs) - 1) : fs[i + 1] # fs[i] + 1
            THEN {"after recovery: WAL files are not a contiguous run ending at the writer's file"} ELSE {})
      \cup (IF Len(fs) > 0 /\ bound # -1 /\ fs[1] < bound
            THEN \* finding D7: the image's oldest file begins with continuation frames whose head was in an
                 \* already unlinked file, and the replay attributes the record that follows them to that file
                 IF ("orph" \in DOMAIN r) /\ r.orph = 1 /\ misattributed
                 THEN {"after recovery of an image whose oldest file begins with orphaned continuation frames: the record that follows them is attributed to that file, which is therefore not reclaimed"}
                 ELSE {"after recovery: a WAL file older than every retained record and than the file recovery resumed in survives"}
            ELSE {})
      \cup (IF r.st.disk # Len(fs) * FileSize \/ ("dsum" \in DOMAIN r.st /\ r.st.disk # r.st.dsum)
            THEN {"after recovery: disk_used_bytes differs from the files' total size"} ELSE {})

(* --- crash monitors (C02, C03, C12, C04) --- *)
InPend(x, pend) ==
  \E i \in 1..Len(pend) : x = pend[i].st \/ x \in PartialApps(pend[i].st, pend[i].op)

(* every batch ever appended is recovered entirely, not at all, or as an   *)
(* upper segment (a leading part legitimately truncated)                   *)
BatchViol(x, batches) ==
  {"batch recovered with a hole or a missing tail" :
     i \in {i \in 1..Len(batches) :
              ~batches[i].dead /\
              LET b == batches[i]
                  n == Len(b.recs)
                  present == IF x[b.q].a THEN {j \in 1..n : \E k \in 1..Len(x[b.q].recs) : x[b.q].recs[k] = b.recs[j]}
                             ELSE {}
                  \* a missing leading part must have been removed by a truncation (or a deletion) that was
                  \* issued on the queue after the batch: b.tp is the largest such truncate position
              IN present # {} /\ ~(\E k \in 1..n : present = k..n /\ \A j \in 1..(k - 1) : b.recs[j][1] <= b.tp)}}

(* after a crash or damage the positions of lost batches are assigned again: a batch none of whose   *)
(* records was recovered is marked dead (BatchViol skips it; it still counts as appended for C08),  *)
(* or a later record that happens to equal one of its records (same position, both empty) would be *)
(* read as a piece of it                                                                           *)
PruneBatches(batches, x) ==
  [i \in 1..Len(batches) |->
     LET b == batches[i] IN
       IF x[b.q].a /\ \E j \in 1..Len(b.recs) : \E k \in 1..Len(x[b.q].recs) : x[b.q].recs[k] = b.recs[j]
       THEN b ELSE [b EXCEPT !.dead = TRUE]]

BatchOf(qm, call) ==
  LET qs == qm[call.q]
      start == AppendStart(qs, call)
  IN [q |-> call.q, tp |-> -1, dead |-> FALSE, recs |-> [i \in 1..Len(call.batch) |-> <<start + i - 1, call.batch[i][1], call.batch[i][2]>>]]

(* a truncate / delete issued on a queue legitimises the loss of leading records of its earlier batches *)
TruncBatches(batches, call) ==
  IF call.op \in {"truncate", "delete"} /\ call.q >= 0
  THEN [i \in 1..Len(batches) |->
          IF batches[i].q = call.q
          THEN [batches[i] EXCEPT !.tp = IF call.op = "delete" THEN 1073741823 ELSE QmMax(@, call.p)]
          ELSE batches[i]]
  ELSE batches

(* a COMPLETED delete ends the incarnation: its batches are marked dead (the next incarnation assigns the *)
(* same positions again, and an empty record of it at the position of an empty record of an old batch *)
(* would be read as a piece of that batch)                                                            *)
DoneBatches(batches, call) ==
  IF call.op = "delete" /\ call.q >= 0
  THEN [i \in 1..Len(batches) |-> IF batches[i].q = call.q THEN [batches[i] EXCEPT !.dead = TRUE] ELSE batches[i]]
  ELSE TruncBatches(batches, call)

CrashViol(r, c) ==
  IF r.out # "ok" THEN
     (IF AlwaysPolicy(c.policy) /\ r.model = "process" THEN {<<"C02", "open failed after crash: " \o r.out>>} ELSE {})
     \cup {<<"C03", "open failed after crash: " \o r.out>>}
     \cup (IF r.out \in {"panic", "timeout"} THEN {<<"C10", "open " \o r.out \o " on a crash image">>} ELSE {})
  ELSE
    LET x == StAbs(r.st, c.nq)
        incall == r.incall = 1 /\ c.cur.op # "none"
        applied == IF incall THEN {Apply(c.qm, c.cur)} ELSE {}
        pend == IF r.model = "process" THEN c.pendP ELSE c.pendW
        ok == r.st.unk = 0 /\ (InPend(x, pend) \/ x \in applied)
        asg2 == IF incall /\ c.cur.op \in {"create", "delete"} /\ c.cur.q >= 0 THEN [c.asg EXCEPT ![c.cur.q] = -1] ELSE c.asg
        batches2 == IF incall /\ c.cur.op = "append" /\ ~IsRejectOrNoop(c.qm, c.cur)
                    THEN Append(c.batches, BatchOf(c.qm, c.cur))
                    ELSE IF incall THEN TruncBatches(c.batches, c.cur) ELSE c.batches
    IN  (IF ~ok /\ AlwaysPolicy(c.policy) /\ r.model = "process"
         THEN {<<"C02", "recovered state is not completed ops + all-or-none of the in-flight one">>} ELSE {})
   \cup (IF ~ok THEN {<<"C03", "recovered state is older than the last persisted point (" \o r.model \o ")">>} ELSE {})
   \cup {<<"C12", m>> : m \in BatchViol(x, batches2)}
   \cup (IF AlwaysPolicy(c.policy) /\ r.model = "process"
         THEN {<<"C04", m>> : m \in PosViolState(r.st, asg2, c) \cup PosViolGone(r.st, asg2, c.qm, c)} ELSE {})
   \cup {<<"C06", m>> : m \in FilesViolCrash(r, c)}

Tag(prop, S) == {<<prop, m>> : m \in S}

(* --- damage monitors (C08, C09, C10, C12) --- *)
Genuine(q, rec, c) == \E i \in 1..Len(c.batches) : c.batches[i].q = q /\ \E j \in 1..Len(c.batches[i].recs) : c.batches[i].recs[j] = rec

NonGenuine(st, c) ==
     {"positions of a recovered queue are not strictly increasing" :
        i \in {i \in 1..Len(st.qs) : \E j \in 1..(Len(st.qs[i].recs) - 1) : st.qs[i].recs[j][1] >= st.qs[i].recs[j + 1][1]}}
\cup UNION { {IF <<st.qs[i].q, st.qs[i].recs[j]>> \in c.embeds
               THEN "recovered record equals an entry embedded in a payload (Embeds class) after damage to the enclosing frame"
               ELSE "recovered record was never appended" :
                 j \in {j \in 1..Len(st.qs[i].recs) : ~Genuine(st.qs[i].q, st.qs[i].recs[j], c)}} : i \in 1..Len(st.qs) }

LostViol(x, c, hit) ==
  {"a retained record whose append was not hit is missing after single-frame payload/CRC damage" :
     q \in {q \in QIds(c) : c.qm[q].a /\
              \E i \in 1..Len(c.qm[q].recs) :
                 LET rec == c.qm[q].recs[i]
                     covered == hit.kind = "append" /\ hit.q = q /\ hit.first <= rec[1] /\ rec[1] < hit.first + hit.n
                 IN ~covered /\ ~(x[q].a /\ \E k \in 1..Len(x[q].recs) : x[q].recs[k] = rec)}}

DamageViol(r, c) ==
  LET sane == r.out \in {"ok", "err"} /\ r.accpanic = 0 /\ r.allocok = 1
      single == r.cls \in {"payload", "crc"}
  IN  (IF ~sane THEN {<<"C10", "open on a damaged directory: " \o r.out \o (IF r.accpanic = 1 THEN ", accessor panicked" ELSE "") \o (IF r.allocok = 0 THEN ", allocation bound exceeded" ELSE "")>>} ELSE {})
 \cup (IF r.out = "ok" /\ r.accpanic = 0 THEN
          LET x == StAbs(r.st, c.nq) IN
               (IF r.cls \in {"payload", "crc", "hdr", "noise", "embed"} THEN Tag("C08", NonGenuine(r.st, c)) ELSE {})
               \* damage, then a crash inside a later append: the record of that append counts as appended;
               \* a record with the in-flight record's queue, position and length but another content is a
               \* splice of its first frame with a stale continuation frame (finding D10 when the reader stopped
               \* at an all-zero header - the end-of-log marker - that damage put in its way)
          \cup (IF r.cls = "dmgcrash" THEN
                  LET iq == r.inflight.q
                      irecs == [i \in 1..Len(r.inflight.recs) |-> <<r.inflight.recs[i][1], r.inflight.recs[i][2], r.inflight.recs[i][3]>>]
                      c2 == [c EXCEPT !.batches = Append(@, [q |-> iq, tp |-> -1, dead |-> FALSE, recs |-> irecs])]
                      got == IF \E i \in 1..Len(r.st.qs) : r.st.qs[i].q = iq
                             THEN r.st.qs[CHOOSE i \in 1..Len(r.st.qs) : r.st.qs[i].q = iq].recs ELSE <<>>
                      \* a recovered record at a position of the torn batch, of that record's length, with another content
                      spliced == \E j \in 1..Len(got), i \in 1..Len(irecs) :
                                    got[j][1] = irecs[i][1] /\ got[j][3] = irecs[i][3] /\ got[j][2] # irecs[i][2] /\ ~Genuine(iq, got[j], c)
                      others == {m \in NonGenuine(r.st, c2) : m # "recovered record was never appended"}
                      never == {m \in NonGenuine(r.st, c2) : m = "recovered record was never appended"}
                      \* C12: a record of the torn batch is back while a LATER one is absent altogether (missing tail or hole)
                      posBack(i) == \E j \in 1..Len(got) : got[j][1] = irecs[i][1]
                      recBack(i) == \E j \in 1..Len(got) : got[j] = irecs[i]
                      \* (a missing LEADING part is not judged: stale Truncate entries behind the splice are replayed too)
                      partial == \E i, j \in 1..Len(irecs) : i < j /\ recBack(i) /\ ~posBack(j)
                  IN Tag("C08", others \cup
                       (IF never = {} THEN {}
                        ELSE IF spliced THEN {"recovered record is a splice of the first frame of an append cut short by a crash and a stale continuation frame behind the point where " \o
                                              (IF r.dmgkind = "zeromarker" THEN "damage made the reader meet an all-zero header (the end-of-log marker) in front of valid frames" ELSE "the reader stopped at a header that is not all-zero after damage (" \o r.dmgkind \o ")")}
                        ELSE never))
                     \cup (IF partial THEN {<<"C12", "batch of an append cut short by a crash behind damaged frames recovered with a hole or a missing tail">>} ELSE {})
                ELSE {})
               \* an order-preserving renumbering of the WAL files (20-digit numbers below, across and above 10^19,
               \* near the top of u64; with gaps) leaves the meaning of the directory unchanged
          \cup (IF r.cls = "renumber" THEN Tag("C17", {"after an order-preserving renumbering of the WAL files: " \o m : m \in StateMismatch(r.st, c.qm, c)}) ELSE {})
          \cup (IF single THEN Tag("C09", LostViol(x, c, r.hit)) ELSE {})
          \cup (IF r.cls \in {"payload", "crc", "hdr"} THEN Tag("C12", BatchViol(x, c.batches)) ELSE {})
        ELSE IF r.cls = "renumber" THEN {<<"C17", "a directory whose WAL files were renumbered in an order-preserving way does not open: " \o r.out>>}
        ELSE IF single THEN {<<"C09", "open failed after single-frame payload/CRC damage: " \o r.out>>}
        ELSE {})

-----------------------------------------------------------------------------
(* Conformance layer: the entries and the file-system effects recorded for one call must be the  *)
(* ones Wal.tla's planning operators (WalPlan / Frames, at the real constants) compute from the  *)
(* observed pre-state.  A difference is reported as DRIFT, not as a violation: it means the code  *)
(* no longer does its I/O the way the specification describes, so the exhaustive TLC results no   *)
(* longer transfer to it.                                                                        *)
IoTuple(e) == <<e.e, e.f, e.o, e.n, IF "t" \in DOMAIN e THEN e.t ELSE 0>>
ObservedFs(io) == LET fs == SelectSeq(io, LAMBDA e : e.e \in {"W", "FL", "FS", "DS", "OP", "CR", "SL", "UL"})
                  IN [i \in 1..Len(fs) |-> IoTuple(fs[i])]
SnapRefs(snap) == UNION { {snap[i].recs[j][3] : j \in 1..Len(snap[i].recs)} : i \in 1..Len(snap) } \ {-1}

ConfDrift(r, c, qm2) ==
  LET call == c.cur IN
  IF ~("st" \in DOMAIN r) \/ ~("ent" \in DOMAIN r) \/ ~c.hasPrev \/ r.res.k # "ok"
     \/ call.op \notin {"create", "delete", "append", "truncate"} \/ IsRejectOrNoop(c.qm, call)
  THEN {}
  ELSE
    LET q == call.q
        base(qq) == RecHdr + c.qlen[qq + 1]
        ownLen == base(q) + (IF call.op = "append" THEN SeqSumLens(call.batch) ELSE 0)
        trk0 == {c.prevTrk[i][1] : i \in 1..Len(c.prevTrk)}
        refsAfter == SnapRefs(r.st.snap)
        ent == r.ent
        posEnt == IF Len(ent) >= 1 THEN SubSeq(ent, 2, Len(ent)) ELSE <<>>
        posKnown == \A i \in 1..Len(posEnt) : posEnt[i][2] >= 0 /\ posEnt[i][2] < c.nq
        lens == [i \in 1..Len(posEnt) |-> base(posEnt[i][2])]
        own == SplitEntry(c.prevW[1], c.prevW[2], ownLen, trk0)
        gcRan == call.op \in {"truncate", "delete"} /\ GcCan(refsAfter, own.tracked, own.file)
        expEmpty == IF gcRan THEN {qq \in QIds(c) : qm2[qq].a /\ Len(qm2[qq].recs) = 0} ELSE {}
        ownOk == Len(ent) >= 1 /\
                 CASE call.op = "create" -> ent[1] = <<"pos", q, 0, 0, ownLen>>
                   [] call.op = "delete" -> ent[1] = <<"del", q, c.qm[q].next, 0, ownLen>>
                   [] call.op = "append" -> ent[1] = <<"append", q, AppendStart(c.qm[q], call), Len(call.batch), ownLen>>
                   [] call.op = "truncate" -> ent[1] = <<"trunc", q, call.p, 0, ownLen>>
        posOk == posKnown /\ {posEnt[i][2] : i \in 1..Len(posEnt)} = expEmpty /\ Len(posEnt) = Cardinality(expEmpty)
                 /\ \A i \in 1..Len(posEnt) : posEnt[i][1] = "pos" /\ posEnt[i][3] = qm2[posEnt[i][2]].next
        \* OnDelay persists or not depending on the clock: either branch is the specification's (Wal.tla: `due`)
        variants == CASE c.policy \in {"on_delay_0_flush", "on_delay_long_flush", "on_delay_us_flush"} -> {"do_nothing", "always_flush"}
                      [] c.policy \in {"on_delay_0_fsync", "on_delay_long_fsync", "on_delay_us_fsync"} -> {"do_nothing", "always_fsync"}
                      [] OTHER -> {c.policy}
        expIos == {CallFsPlan(call.op, ownLen, c.prevW[1], c.prevW[2], trk0, refsAfter, lens, pol, TRUE) : pol \in variants}
    IN  (IF ~ownOk THEN {"the call's own WAL entry differs from the specification's"} ELSE {})
   \cup (IF ownOk /\ ~posOk THEN {"the GC pass did not record exactly the empty queues with their next positions"} ELSE {})
   \cup (IF ownOk /\ posOk /\ c.crashfree /\ ObservedFs(r.io) \notin expIos
         THEN {"file-system effects of " \o call.op \o " differ from Wal's plan"} ELSE {})

(* Clean restart: where the writer resumes, which files recovery opens, the recovery GC, and which *)
(* files the rebuilt queues hold on to.                                                         *)
AttrSet(attr, c) == UNION { {attr[q][i] : i \in 1..Len(attr[q])} : q \in QIds(c) }
ResumeOff(off) ==
  IF off % BlockSize # 0 /\ BlockSize - (off % BlockSize) < HeaderLen /\ (off \div BlockSize) + 1 < BlocksPerFile
  THEN ((off \div BlockSize) + 1) * BlockSize ELSE off
SetToSeq(S) == LET RECURSIVE Srt(_)
                   Srt(T) == IF T = {} THEN <<>> ELSE LET x == CHOOSE x \in T : \A y \in T : x <= y IN <<x>> \o Srt(T \ {x})
               IN Srt(S)
ConfRestart(r, c, qm2, attr2) ==
  IF ~("st" \in DOMAIN r) \/ ~("ent" \in DOMAIN r) \/ ~c.hasPrev \/ r.res.k # "ok" \/ c.cur.op # "restart" \/ ~c.crashfree
  THEN {}
  ELSE
    LET trk0 == {c.prevTrk[i][1] : i \in 1..Len(c.prevTrk)}
        f == c.prevW[1]
        off == ResumeOff(c.prevW[2])
        refs == SnapRefs(r.st.snap)
        ent == r.ent
        posKnown == \A i \in 1..Len(ent) : ent[i][2] >= 0 /\ ent[i][2] < c.nq
        lens == [i \in 1..Len(ent) |-> RecHdr + c.qlen[ent[i][2] + 1]]
        gcRan == GcCan(refs, trk0, f)
        expEmpty == IF gcRan THEN {qq \in QIds(c) : qm2[qq].a /\ Len(qm2[qq].recs) = 0} ELSE {}
        posOk == posKnown /\ {ent[i][2] : i \in 1..Len(ent)} = expEmpty /\ Len(ent) = Cardinality(expEmpty)
                 /\ \A i \in 1..Len(ent) : ent[i][1] = "pos" /\ ent[i][3] = qm2[ent[i][2]].next
        opens == SetToSeq({t \in trk0 : t <= f})
        gc == GcPlanG(refs, trk0, f, off, lens, TRUE)
        expIo == [i \in 1..Len(opens) |-> Eff("OP", opens[i], -1, 0, 0)] \o FsOnly(gc.effs)
        \* the cursor the writer has after recovery (before the recovery GC writes): observed cursor minus GC bytes
        gcBytes == EffBytes(gc.effs)
    IN  (IF refs # AttrSet(attr2, c) THEN {"after restart the queues hold on to other files than the ones their retained records were written from"} ELSE {})
   \cup (IF ~posOk THEN {"the recovery GC did not record exactly the empty queues with their next positions"} ELSE {})
   \cup (IF posOk /\ ObservedFs(r.io) # expIo THEN {"file-system effects of open (files opened, recovery GC) differ from Wal's plan"} ELSE {})
   \cup (IF posOk /\ <<r.st.w[1], r.st.w[2]>> # <<gc.file, gc.off>> THEN {"the writer does not resume where the specification says (cursor hand-over)"} ELSE {})

ConfAttr(r, c, attr2) ==
  IF ~("st" \in DOMAIN r) \/ ~c.crashfree \/ r.res.k # "ok" \/ c.cur.op \notin {"create", "delete", "append", "truncate", "restart"} THEN {}
  ELSE  (IF c.cur.op # "restart" /\ SnapRefs(r.st.snap) # AttrSet(attr2, c)
         THEN {"the queues hold on to other files than the ones their retained records were written from"} ELSE {})
   \* summary().file_number of a queue = the file its oldest retained record was written from
   \cup {"summary() reports another first file than the one the oldest retained record was written from" :
           i \in {i \in 1..Len(r.st.qs) :
                    LET e == r.st.qs[i] IN
                      e.q >= 0 /\ e.q < c.nq /\
                      e.sumfile # (IF Len(attr2[e.q]) = 0 THEN -1 ELSE attr2[e.q][1])}}

ReportDrift(D) == \A m \in D : PrintT("DRIFT|" \o ToString(l) \o "|" \o ToString(ctx.run) \o "|" \o ctx.script \o "|" \o m)

-----------------------------------------------------------------------------
(* Reporting *)
(* inside a crash continuation every violation is also a violation of the  *)
(* property that demanded the continuation ("the recovered log is fully    *)
(* usable")                                                                *)
Lift(c, V) == V \cup UNION { {<<p, "continuation: " \o v[1] \o ": " \o v[2]>> : v \in V} : p \in c.subprops }

Report(V) == \A v \in V : PrintT("VIOL|" \o v[1] \o "|" \o ToString(l) \o "|" \o ToString(ctx.run) \o "|" \o ctx.script \o "|" \o v[2])

-----------------------------------------------------------------------------
(* Actions, one per event kind *)

R == Rec[l]

TrRun ==
  /\ R.ev = "run"
  /\ ctx' = InitCtx(R)
  /\ saved' = NoCtx
  /\ refObs' = IF R.c14 = 1 THEN <<>> ELSE refObs
  /\ nviol' = nviol

TrInit ==
  /\ R.ev = "init"
  /\ LET V == IF R.out # "ok" THEN {<<"C05", "initial open failed">>}
              ELSE Tag("C05", StateMismatch(R.st, ctx.qm, ctx))
                   \cup Tag("C06", FilesViol([res |-> [k |-> "ok"], st |-> R.st], ctx, ctx.attr, 0))
     IN /\ Report(V)
        /\ nviol' = nviol + Cardinality(V)
  /\ ctx' = IF R.out = "ok" THEN WithPrev(ctx, R.st) ELSE [ctx EXCEPT !.dead = TRUE]
  /\ UNCHANGED <<saved, refObs>>

SetLastOp(pend, op) == [pend EXCEPT ![Len(pend)].op = op]

TrBegin ==
  /\ R.ev = "begin"
  /\ LET call == CallOf(R) IN
       ctx' = [ctx EXCEPT !.cur = call, !.curFsync = R.fsync,
                          !.embeds = @ \cup {<<R.emb[i][1], <<R.emb[i][2], R.emb[i][3], R.emb[i][4]>>>> : i \in 1..Len(R.emb)},
                          !.pendP = SetLastOp(@, call), !.pendW = SetLastOp(@, call)]
  /\ UNCHANGED <<saved, refObs, nviol>>

(* C14: observations compared across policies *)
ObsOf(r) == [k |-> r.res.k, last |-> r.res.last, evicted |-> r.res.evicted,
             qs |-> IF "st" \in DOMAIN r THEN [i \in 1..Len(r.st.qs) |-> [q |-> r.st.qs[i].q, recs |-> r.st.qs[i].recs, next |-> r.st.qs[i].next]] ELSE <<>>]

TrEnd ==
  /\ R.ev = "end"
  /\ LET c == ctx
         call == c.cur
         hasSt == "st" \in DOMAIN R
         qm2 == Apply(c.qm, call)
         isRestart == call.op = "restart"
         executed == R.res.k = "ok" /\ ~IsRejectOrNoop(c.qm, call) /\ call.op # "restart"
         stProp == IF isRestart THEN "C01" ELSE "C05"
         asg2 == AssignedAfter(c.asg, c.qm, call)
         w0file == c.prevW[1]
         attr2 == IF ~executed \/ ~c.crashfree THEN c.attr
                  ELSE CASE call.op = "append" -> [c.attr EXCEPT ![call.q] = @ \o [i \in 1..Len(call.batch) |-> w0file]]
                         [] call.op = "truncate" -> [c.attr EXCEPT ![call.q] = LastN(@, Len(qm2[call.q].recs))]
                         [] call.op \in {"create", "delete"} -> [c.attr EXCEPT ![call.q] = <<>>]
                         [] OTHER -> c.attr
         fatal == R.res.k \in {"panic", "io", "err"}
         V0 == IF fatal THEN
                  {<<IF isRestart THEN "C01" ELSE "C05", "call failed: " \o R.res.k>>}
                  \cup (IF R.res.k = "panic" THEN {<<"C10", "panic in " \o call.op>>} ELSE {})
               ELSE
                  Tag("C05", ResultMismatch(R.res, c.qm, call))
                  \cup (IF hasSt THEN Tag(stProp, StateMismatch(R.st, qm2, c)) ELSE {})
                  \cup Tag("C13", NoTraceViol(R, c))
                  \cup Tag("C15", BytesViol(R, c))
                  \cup Tag("C16", MemViol(R, c, qm2))
                  \cup Tag("C04", PosViolEnd(R, c))
                  \cup (IF hasSt THEN Tag("C04", PosViolState(R.st, asg2, c) \cup PosViolGone(R.st, asg2, qm2, c)) ELSE {})
                  \cup (IF call.op \in {"truncate", "delete", "restart"} /\ (executed \/ isRestart)
                        THEN Tag("C06", FilesViol(R, c, attr2, w0file)) ELSE {})
                  \* C12 at the weakest restart of all, a clean one: no batch comes back with a hole or a missing tail
                  \cup (IF isRestart /\ hasSt /\ ~fatal THEN Tag("C12", BatchViol(StAbs(R.st, c.nq), c.batches)) ELSE {})
         \* the file set itself is not compared across runs (the order in which a GC pass records the empty
         \* queues shifts the cursor by a few bytes from run to run); whether files are RECLAIMED as C06 demands is
         c06v == IF ~fatal /\ call.op \in {"truncate", "delete", "restart"} /\ (executed \/ isRestart)
                 THEN FilesViol(R, c, attr2, w0file) ELSE {}
         \* the cursor and the file set are compared across policies as long as the history is deterministic
         \* at the byte level: a call that recorded the positions of two or more empty queues wrote them in
         \* HashMap order, which can move padding and frame splits (hence the cursor) by a few bytes
         amb2 == c.amb \/ (("ent" \in DOMAIN R) /\ Cardinality({i \in 1..Len(R.ent) : R.ent[i][1] = "pos"}) >= 2)
         obs == ObsOf(R) @@ [c06 |-> c06v, amb |-> amb2,
                             w |-> IF hasSt THEN <<R.st.w[1], R.st.w[2]>> ELSE <<>>,
                             files |-> IF hasSt THEN R.st.files ELSE <<>>]
         V14 == IF c.c14 = 2 /\ ~c.sub THEN
                   IF c.step + 1 > Len(refObs) THEN {<<"C14", "run longer than its reference run">>}
                   ELSE IF [x \in DOMAIN refObs[c.step + 1] \ {"c06", "amb", "w", "files"} |-> refObs[c.step + 1][x]] # ObsOf(R)
                        THEN {<<"C14", "result or state differs from the same call under another policy">>}
                   ELSE IF refObs[c.step + 1].c06 # c06v
                        THEN {<<"C14", "reclamation of WAL files differs from the same call under another policy">>}
                   ELSE IF ~amb2 /\ ~refObs[c.step + 1].amb /\ ~fatal /\ hasSt /\
                           (refObs[c.step + 1].w # obs.w \/ refObs[c.step + 1].files # obs.files)
                        THEN {<<"C14", "writer position or WAL file set differs from the same call under another policy">>}
                   ELSE {}
                ELSE {}
         V == Lift(c, V0 \cup V14)
         newPend(pend, m) == IF executed /\ Promise(m, c.policy, call, c.curFsync)
                             THEN << [st |-> qm2, op |-> NoCall] >>
                             ELSE IF qm2 = pend[Len(pend)].st THEN SetLastOp(pend, NoCall)
                             ELSE Append(pend, [st |-> qm2, op |-> NoCall])
     IN /\ Report(V)
        /\ (fatal \/ ReportDrift(ConfDrift(R, c, qm2) \cup ConfRestart(R, c, qm2, attr2) \cup ConfAttr(R, c, attr2)))
        /\ nviol' = nviol + Cardinality(V)
        /\ refObs' = IF c.c14 = 1 /\ ~c.sub THEN Append(refObs, obs) ELSE refObs
        /\ ctx' = IF fatal THEN [c EXCEPT !.dead = TRUE, !.cur = NoCall]
                  ELSE LET c1 == [c EXCEPT !.qm = qm2, !.asg = asg2, !.cur = NoCall, !.attr = attr2, !.amb = amb2,
                                           !.pendP = newPend(@, "process"), !.pendW = newPend(@, "power"),
                                           !.batches = IF executed /\ call.op = "append" THEN Append(@, BatchOf(c.qm, call))
                                                       ELSE IF executed THEN DoneBatches(@, call) ELSE @,
                                           !.step = @ + 1]
                       IN IF hasSt THEN WithPrev(c1, R.st) ELSE c1
  /\ UNCHANGED saved

TrCrash ==
  /\ R.ev = "crash"
  /\ LET c == ctx
         V == CrashViol(R, c)
         props == (IF AlwaysPolicy(c.policy) /\ R.model = "process" THEN {"C02"} ELSE {}) \cup {"C03"}
         incall == R.incall = 1 /\ c.cur.op # "none"
     IN /\ Report(V)
        /\ nviol' = nviol + Cardinality(V)
        /\ IF R.out = "ok" /\ R.ncont > 0 THEN
              LET x == StAbs(R.st, c.nq)
                  asg2 == IF incall /\ c.cur.op \in {"create", "delete"} /\ c.cur.q >= 0 THEN [c.asg EXCEPT ![c.cur.q] = -1] ELSE c.asg
                  (* positions of an in-flight append that was recovered count as assigned *)
                  (* C04 speaks about crashes under a flush-per-operation policy only: elsewhere a crash *)
                  (* legitimately loses unpersisted appends, and positions restart from what survived   *)
                  asg3 == IF AlwaysPolicy(c.policy) /\ R.model = "process"
                          THEN [q \in QIds(c) |-> IF x[q].a /\ Len(x[q].recs) > 0 THEN QmMax(asg2[q], RPos(x[q].recs[Len(x[q].recs)])) ELSE asg2[q]]
                          ELSE [q \in QIds(c) |-> IF x[q].a THEN x[q].next - 1 ELSE -1]
                  sub == [c EXCEPT !.qm = x, !.asg = asg3, !.cur = NoCall,
                                   !.pendP = << [st |-> x, op |-> NoCall] >>, !.pendW = << [st |-> x, op |-> NoCall] >>,
                                   !.crashfree = FALSE, !.sub = TRUE, !.subprops = props,
                                   !.batches = PruneBatches(IF incall /\ c.cur.op = "append" /\ ~IsRejectOrNoop(c.qm, c.cur)
                                                            THEN Append(@, BatchOf(c.qm, c.cur))
                                                            ELSE IF incall THEN TruncBatches(@, c.cur) ELSE @, x)]
              IN /\ saved' = c
                 /\ ctx' = WithPrev(sub, R.st)
           ELSE UNCHANGED <<ctx, saved>>
  /\ UNCHANGED refObs

TrDamage ==
  /\ R.ev = "damage"
  /\ LET c == ctx
         V == DamageViol(R, c)
     IN /\ Report(V)
        /\ nviol' = nviol + Cardinality(V)
        /\ IF R.out = "ok" /\ R.accpanic = 0 /\ R.ncont > 0 THEN
              LET x == StAbs(R.st, c.nq)
                  sub == [c EXCEPT !.qm = x, !.asg = [q \in QIds(c) |-> IF x[q].a THEN x[q].next - 1 ELSE -1],
                                   !.cur = NoCall,
                                   !.pendP = << [st |-> x, op |-> NoCall] >>, !.pendW = << [st |-> x, op |-> NoCall] >>,
                                   !.crashfree = FALSE, !.sub = TRUE, !.subprops = {"C09"},
                                   !.batches = PruneBatches(@, x)]
              IN /\ saved' = c
                 /\ ctx' = WithPrev(sub, R.st)
           ELSE UNCHANGED <<ctx, saved>>
  /\ UNCHANGED refObs

(* C11: an I/O failure at any listing / open / read call of recovery is reported as an I/O error, promptly *)
TrFault ==
  /\ R.ev = "fault"
  /\ LET V == IF R.struck > 0 /\ ~(R.out = "err" /\ R.errkind = "io")
              THEN {<<"C11", "I/O failure at " \o R.site \o " call " \o ToString(R.k) \o
                            (IF R.forever = 1 THEN " (persistent, " ELSE " (transient, ") \o R.kind \o
                            ") during recovery: open returned " \o R.out \o
                            (IF R.out = "err" THEN " " \o R.errkind ELSE "")>>}
              ELSE {}
     IN /\ Report(V)
        /\ nviol' = nviol + Cardinality(V)
  /\ UNCHANGED <<ctx, saved, refObs>>

(* C17: only regular files named wal-<20 decimal digits> (value within u64) are WAL files *)
WalPrefix == <<119, 97, 108, 45>>
MaxU64Digits == <<1, 8, 4, 4, 6, 7, 4, 4, 0, 7, 3, 7, 0, 9, 5, 5, 1, 6, 1, 5>>
LexLeq(a, b) ==
  LET RECURSIVE L(_)
      L(i) == IF i > Len(a) THEN TRUE ELSE IF a[i] < b[i] THEN TRUE ELSE IF a[i] > b[i] THEN FALSE ELSE L(i + 1)
  IN L(1)
IsWalName(n) ==
  /\ Len(n) = 24
  /\ SubSeq(n, 1, 4) = WalPrefix
  /\ \A i \in 5..24 : n[i] >= 48 /\ n[i] <= 57
  /\ LexLeq([i \in 1..20 |-> n[i + 4] - 48], MaxU64Digits)

(* value of a 20-digit sequence when it is small, else -1 *)
DigitsVal(d) ==
  IF \E i \in 1..11 : d[i] # 0 THEN -1
  ELSE LET RECURSIVE V(_, _)
           V(i, acc) == IF i > 20 THEN acc ELSE V(i + 1, acc * 10 + d[i])
       IN V(12, 0)

TrName ==
  /\ R.ev = "name"
  /\ LET expected == IsWalName(R.bytes) /\ R.kind = "file"
         V ==  (IF (R.accepted = 1) # expected
                THEN {<<"C17", IF expected THEN "a regular file named wal-<20 digits> was not treated as a WAL file"
                                ELSE "a directory entry that is not a regular file named wal-<20 digits> was treated as a WAL file (" \o R.kind \o ")">>}
                ELSE {})
          \cup (IF ~expected /\ R.untouched = 0 THEN {<<"C17", "a foreign directory entry was modified or removed (" \o R.kind \o ")">>} ELSE {})
     IN /\ Report(V)
        /\ nviol' = nviol + Cardinality(V)
  /\ UNCHANGED <<ctx, saved, refObs>>

SeqToSet(sq) == {sq[i] : i \in 1..Len(sq)}
TrDirHist ==
  /\ R.ev = "dirhist"
  /\ LET initial == [i \in 1..Len(R.initial) |-> DigitsVal(R.initial[i])]
         created == [i \in 1..Len(R.created) |-> DigitsVal(R.created[i])]
         opened == [i \in 1..Len(R.opened) |-> DigitsVal(R.opened[i])]
         unlinked == [i \in 1..Len(R.unlinked) |-> DigitsVal(R.unlinked[i])]
         MaxS(S) == CHOOSE x \in S : \A y \in S : x >= y
         known == SeqToSet(initial) \cup SeqToSet(created)
         createdBad == \E i \in 1..Len(created) :
                          created[i] # MaxS(SeqToSet(initial) \cup {created[j] : j \in 1..(i - 1)}) + 1
         V ==  (IF R.foreign_ok # 1 THEN {<<"C17", "a foreign directory entry was modified or removed during a history with roll-over and GC">>} ELSE {})
          \cup (IF R.order_ok # 1 THEN {<<"C17", "WAL files were not replayed in numeric order">>} ELSE {})
          \cup (IF \E i \in 1..Len(R.final) : ~IsWalName(R.final[i]) /\ ~(\E j \in 1..Len(R.foreign) : R.foreign[j] = R.final[i])
                THEN {<<"C17", "the library left a directory entry that is not named wal-<20 digits>">>} ELSE {})
          \cup (IF Len(R.listed) > 0 /\ [i \in 1..Len(R.listed[1]) |-> DigitsVal(R.listed[1][i])] # initial
                THEN {<<"C17", "the WAL files listed at open are not exactly the regular files named wal-<20 digits>">>} ELSE {})
          \cup (IF createdBad THEN {<<"C17", "a created WAL file is not numbered last + 1">>} ELSE {})
          \cup (IF ~(SeqToSet(opened) \subseteq known) \/ ~(SeqToSet(unlinked) \subseteq known)
                THEN {<<"C17", "a file that is not a tracked WAL file was opened or removed">>} ELSE {})
          \cup (IF \E i \in 1..(Len(unlinked) - 1) : unlinked[i] >= unlinked[i + 1]
                THEN {<<"C17", "WAL files were not removed oldest first">>} ELSE {})
     IN /\ Report(V)
        /\ nviol' = nviol + Cardinality(V)
  /\ UNCHANGED <<ctx, saved, refObs>>

(* C18: a history and its projection onto one queue agree on everything that queue returns *)
TrPair ==
  /\ R.ev = "pair"
  /\ LET V == IF R.aborted = 1 THEN {<<"C18", "a run of the pair aborted">>}
              ELSE IF Len(R.full) # Len(R.proj) THEN {<<"C18", "the projected history has a different number of observations">>}
              ELSE {<<"C18", "queue " \o ToString(R.q) \o ": result or content differs between the history and its projection (observation " \o ToString(i) \o ", " \o R.full[i].op \o ")">> :
                       i \in {i \in 1..Len(R.full) : R.full[i] # R.proj[i]}}
     IN /\ Report(V)
        /\ nviol' = nviol + Cardinality(V)
  /\ UNCHANGED <<ctx, saved, refObs>>

TrPairCrash ==
  /\ R.ev = "pairc"
  /\ LET V == IF R.out # "ok" THEN {<<"C18", "open failed on a crash image of the full history">>}
              ELSE IF R.got # R.want
                   THEN {<<"C18", "queue " \o ToString(R.q) \o ": after a crash " \o (IF R.incall = 1 THEN "inside a call addressed to another queue" ELSE "between calls") \o " its recovered content differs from the projected history">>}
                   ELSE {}
     IN /\ Report(V)
        /\ nviol' = nviol + Cardinality(V)
  /\ UNCHANGED <<ctx, saved, refObs>>

(* C07 at the record layer: layout = Frames!FlatAll at the real constants, read back = written *)
TrFrames ==
  /\ R.ev = "frames"
  /\ LET exp == FlatAll(R.start, R.lens, 1, <<>>, <<>>)
         V ==  (IF R.start # R.want_start THEN {<<"C07", "the writer did not reach the start cursor through a filler entry">>} ELSE {})
          \cup (IF R.errors # 0 \/ R.nread # R.nfill + Len(R.lens) \/ R.read # R.wrote
                THEN {<<"C07", "entries are not read back identical and in order">>} ELSE {})
          \cup (IF R.ws # exp.ws THEN {<<"C07", "frame layout differs from the specification (padding, frame sizes or types)">>} ELSE {})
          \cup (IF R.reported # exp.costs \/ R.end # exp.pos THEN {<<"C15", "bytes reported by write_record differ from the specification">>} ELSE {})
     IN /\ Report(V)
        /\ nviol' = nviol + Cardinality(V)
  /\ UNCHANGED <<ctx, saved, refObs>>

(* spec -> impl: the state Wal.tla (at the real geometry, GEN_Wal) predicts at the end of a TLC-generated *)
(* behaviour, compared with what the real library reached.  A difference is a conformance drift of the  *)
(* implementation-shaped specification (the abstract state is also judged by the C05 monitor).          *)
TrExpect ==
  /\ R.ev = "expect"
  /\ LET c == ctx
         absOk == \A i \in 1..Len(R.abs) :
                     LET e == R.abs[i] q == i - 1 IN
                       IF e.a = 0 THEN ~c.qm[q].a
                       ELSE /\ c.qm[q].a /\ c.qm[q].next = e.next
                            /\ [j \in 1..Len(c.qm[q].recs) |-> <<c.qm[q].recs[j][1], c.qm[q].recs[j][3]>>] = e.recs
         D ==  (IF ~absOk THEN {"spec->impl: abstract state differs from Wal.tla's prediction"} ELSE {})
          \cup (IF c.hasPrev /\ <<c.prevW[1], c.prevW[2]>> # R.w THEN {"spec->impl: write cursor differs from Wal.tla's prediction"} ELSE {})
          \cup (IF c.hasPrev /\ c.prevFiles # R.files THEN {"spec->impl: WAL file set differs from Wal.tla's prediction"} ELSE {})
     IN ReportDrift(D)
  /\ UNCHANGED <<ctx, saved, refObs, nviol>>

(* The entry codec: the real deserializer (verif::decode_entry = MultiPlexedRecord::deserialize) against *)
(* Codec!Decode on byte strings - encodings of entries (enc = 1: they must decode to what was encoded,  *)
(* C07), mutations of encodings and hostile strings (the deserializer must not panic, C10; a different   *)
(* answer than Decode's is a conformance drift of Codec.tla, not a verdict).                            *)
TrCodec ==
  /\ R.ev = "codec"
  /\ LET spec == Decode(R.b)
         impl == IF R.out # "entry" THEN None
                 ELSE [k |-> R.k, q |-> R.q, pos |-> R.pos,
                       recs |-> [i \in 1..Len(R.recs) |-> [pos |-> R.recs[i].pos, payload |-> R.recs[i].payload]]]
         V ==  (IF R.out = "panic" THEN {<<"C10", "the entry deserializer panicked on a byte string">>} ELSE {})
          \cup (IF R.enc = 1 /\ R.out # "panic" /\ (spec = None \/ impl # spec)
                THEN {<<"C07", "an encoded entry does not decode to what was encoded">>} ELSE {})
         D == IF R.enc = 0 /\ R.out # "panic" /\ impl # spec
              THEN {"codec: the deserializer and Codec!Decode disagree on a byte string of " \o ToString(Len(R.b)) \o " bytes"} ELSE {}
     IN /\ Report(V)
        /\ ReportDrift(D)
        /\ nviol' = nviol + Cardinality(V)
  /\ UNCHANGED <<ctx, saved, refObs>>

(* C06 after a transient failure to create the next WAL file (harness `obstacle`): after every call  *)
(* that returned Ok, and after every open, that follows the failure.                                *)
TrObstacle ==
  /\ R.ev = "obstacle"
  /\ LET bad(f) ==
           \/ f.disk_files # f.tracked
           \/ Len(f.tracked) = 0
           \/ f.tracked[Len(f.tracked)] # f.w
           \/ \E i \in 1..(Len(f.tracked) - 1) : f.tracked[i + 1] # f.tracked[i] + 1
           \/ f.disk_used # Len(f.disk_files) * FileSize
         V == {<<"C06", "after a transient failure to create the next WAL file and a later " \o R.checks[i].after \o
                        " that returned Ok: the directory, the tracked files and disk usage disagree or are not a contiguous run">> :
                 i \in {i \in 1..Len(R.checks) : bad(R.checks[i].f)}}
     IN /\ Report(V)
        /\ nviol' = nviol + Cardinality(V)
  /\ UNCHANGED <<ctx, saved, refObs>>

(* C15 when the GC pass of a truncate / delete meets an I/O error (the oldest file was removed behind *)
(* the library's back): a call that returns Ok reports exactly the bytes it appended                  *)
TrGcFail ==
  /\ R.ev = "gcfail"
  /\ LET V == IF R.k = "ok" /\ R.reported # R.written
              THEN {<<"C15", R.op \o " whose GC pass met an I/O error returned Ok and reported " \o ToString(R.reported) \o
                             " bytes, but appended " \o ToString(R.written)>>}
              ELSE {}
     IN /\ Report(V)
        /\ nviol' = nviol + Cardinality(V)
  /\ UNCHANGED <<ctx, saved, refObs>>

(* C07 through WAL files: the real record writer over the real rolling writer, fillers up to `gap`  *)
(* bytes before the end of a file, then entries (empty ones among them), read back by the real readers *)
TrFilesRt ==
  /\ R.ev = "filesrt"
  /\ LET V == IF R.errors # 0 \/ R.read # R.wrote
              THEN {<<"C07", "entries written through WAL files are not read back identical and in order (writer " \o
                             ToString(R.gap) \o " bytes before the end of a file" \o (IF R.restart = 1 THEN ", writer re-created there" ELSE "") \o ")">>}
              ELSE {}
     IN /\ Report(V)
        /\ nviol' = nviol + Cardinality(V)
  /\ UNCHANGED <<ctx, saved, refObs>>

TrPop ==
  /\ R.ev = "pop"
  /\ ctx' = saved
  /\ saved' = NoCtx
  /\ UNCHANGED <<refObs, nviol>>

TraceNext ==
  /\ l <= NLines
  /\ l' = l + 1
  /\ \/ TrRun \/ TrInit \/ TrBegin \/ TrEnd \/ TrCrash \/ TrPop \/ TrDamage \/ TrFault \/ TrName \/ TrDirHist \/ TrPair \/ TrPairCrash \/ TrFrames \/ TrExpect \/ TrCodec \/ TrObstacle \/ TrGcFail \/ TrFilesRt

TraceInit ==
  /\ l = 1
  /\ ctx = NoCtx
  /\ saved = NoCtx
  /\ refObs = <<>>
  /\ nviol = 0

TraceSpec == TraceInit /\ [][TraceNext]_tvars

(* Acceptance: every line was consumed.  The first unmatched line is printed. *)
TraceAccepted ==
  LET d == TLCGet("stats").diameter IN
    IF d - 1 = NLines THEN PrintT("ACCEPTED|" \o ToString(NLines))
    ELSE PrintT("UNMATCHED|" \o ToString(d) \o "|" \o (IF d <= NLines THEN Rec[d].ev ELSE "eof")) /\ FALSE
=============================================================================
