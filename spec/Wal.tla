-------------------------------- MODULE Wal --------------------------------
(***************************************************************************)
(* The implementation-shaped specification of mrecordlog.                  *)
(*                                                                         *)
(* Every public call is a SEQUENCE of steps, in the implementation's order *)
(* (plan-then-step): CallBegin computes, with the pure planning operators  *)
(* of WalPlan / Frames, the list `todo` of effects the call will perform;  *)
(* one Step disjunct per effect kind pops and applies the head of `todo`.  *)
(* Crash is enabled in every state, hence between any two effects, and     *)
(* tears inside the last OS-level write.  Recovery (Open) replays the      *)
(* image with the reader's rules and plans the recovery GC as further      *)
(* steps, so a second crash can strike the recovery's own writes.          *)
(*                                                                         *)
(* State:                                                                  *)
(*  mem      in-memory queues: per queue Absent or [a, start, recs] with   *)
(*           recs a sequence of [pos, len, file] (file = attribution)      *)
(*  tracked  the FileTracker set                                           *)
(*  wfile, woff   the writer's cursor                                      *)
(*  items    everything written to the files, in stream order: paddings    *)
(*           and frames with their extent, owning entry, how many of their *)
(*           bytes are visible (torn items), whether fdatasync covered them*)
(*  entries  every WAL entry ever written (kind, queue, position, batch)   *)
(*  exists, sized, dirDurable   the directory                              *)
(*  buffered, osCnt   the BufWriter: bytes not yet / already at the OS     *)
(*  ghosts: done (abstract state after the last completed call), inflight, *)
(*  pendP / pendW (abstract states since the last persistence promise, per *)
(*  loss model), assigned (C04), batches (C12), wsum (C15).                *)
(***************************************************************************)
EXTENDS WalPlan, QueueMap, TLC

CONSTANTS Queues,          \* set of queue ids 0..n-1
          MaxOps,          \* calls before the (first) crash / restart
          MaxPost,         \* calls after a recovery
          MaxCrashes,
          Policy,          \* "always_flush" | "always_fsync" | "do_nothing"
          LossModels,      \* subset of {"process", "power"}
          GcAlwaysSyncs,   \* TRUE: the repaired code (fix D2)
          OpenSizesLast,   \* TRUE: the repaired code (fix D3)
          PayLens,         \* payload lengths offered to appends
          BatchSizes,      \* batch sizes offered to appends
          AllowExplicit,   \* explicit positions offered
          MaxDamage,       \* frames that may be damaged at rest (after a clean close)
          DamageKinds,     \* subset of {"crc", "type", "zero"}
          WithPersistCalls,    \* explicit persist(Flush) / persist(FlushAndFsync) calls are offered
          WithNoops,           \* rejected and no-op calls are offered (C13 at the design level)
          MinOpsBeforeCrash,   \* crashes are enabled once this many calls have begun (0 everywhere except the simulation configs)
          CrcQuarantinesBlock  \* FALSE: the code (a CRC failure drops the frame only); TRUE: self-test of the C09 predicate

VARIABLES mem, tracked, wfile, woff, items, entries, exists, sized, dirDurable,
          buffered, osCnt, lastOs, todo, mode,
          done, inflight, pendP, pendW, assigned, batches, wsum, wstart,
          nops, post, ncrash, verdict, clean, lastRet, lastLoss, cfile, ndamage, damaged, hits, dkinds

vars == <<mem, tracked, wfile, woff, items, entries, exists, sized, dirDurable,
          buffered, osCnt, lastOs, todo, mode,
          done, inflight, pendP, pendW, assigned, batches, wsum, wstart,
          nops, post, ncrash, verdict, clean, lastRet, lastLoss, cfile, ndamage, damaged, hits, dkinds>>

-----------------------------------------------------------------------------
(* Items *)
(* n: declared extent (what the reader steps over); vis: bytes really in the file *)
Total == LET RECURSIVE S(_)
             S(n) == IF n = 0 THEN 0 ELSE S(n - 1) + (IF items[n].gone THEN 0 ELSE items[n].vis)
         IN S(Len(items))

MemAbsent == [a |-> FALSE]
EmptyMem == [q \in Queues |-> MemAbsent]
EmptyAbs == [q \in Queues |-> Absent]

(* abstraction function: in-memory queues -> abstract queue map *)
AbsOf(m) ==
  [q \in Queues |->
     IF m[q].a THEN Q([i \in 1..Len(m[q].recs) |-> <<m[q].recs[i].pos, m[q].recs[i].pid, m[q].recs[i].len>>],
                      IF Len(m[q].recs) > 0 THEN m[q].recs[Len(m[q].recs)].pos + 1 ELSE m[q].start)
     ELSE Absent]

MemNext(mq) == IF Len(mq.recs) > 0 THEN mq.recs[Len(mq.recs)].pos + 1 ELSE mq.start

-----------------------------------------------------------------------------
(* In-memory updates, as src/mem/queue.rs does them *)

MemAppend(m, q, start, batch, file) ==
  [m EXCEPT ![q].recs = @ \o [i \in 1..Len(batch) |-> [pos |-> start + i - 1, pid |-> batch[i][1], len |-> batch[i][2], file |-> file]],
            ![q].start = IF m[q].start = 0 /\ Len(m[q].recs) = 0 THEN start ELSE @]

MemTruncate(m, q, p) ==
  LET mq == m[q]
      nx == MemNext(mq)
  IN IF mq.start > p THEN m
     ELSE IF p + 1 >= nx THEN [m EXCEPT ![q] = [a |-> TRUE, start |-> p + 1, recs |-> <<>>]]
     ELSE [m EXCEPT ![q] = [a |-> TRUE, start |-> p + 1, recs |-> SelectSeq(mq.recs, LAMBDA r : r.pos > p)]]

MemApply(m, c, file) ==
  CASE c.op = "create" -> [m EXCEPT ![c.q] = [a |-> TRUE, start |-> 0, recs |-> <<>>]]
    [] c.op = "delete" -> [m EXCEPT ![c.q] = MemAbsent]
    [] c.op = "append" -> MemAppend(m, c.q, IF c.pos = -1 THEN MemNext(m[c.q]) ELSE c.pos, c.batch, file)
    [] c.op = "truncate" -> MemTruncate(m, c.q, c.p)
    [] OTHER -> m

(* which files are referenced by a retained record: the handle sits on the *)
(* LAST record of each run of records attributed to the same file, but the *)
(* set of referenced files is simply the set of attributions               *)
QRefs(m) == UNION { {m[q].recs[i].file : i \in 1..Len(m[q].recs)} : q \in {q \in Queues : m[q].a} }
EmptyQs(m) == {q \in Queues : m[q].a /\ Len(m[q].recs) = 0}

-----------------------------------------------------------------------------
(* Plans.  An effect is a tuple whose first component is its kind; the     *)
(* file-system effects are Frames' <<kind, file, off, n, type>>.           *)

EntryOf(c, m) ==
  CASE c.op = "create" -> [k |-> "pos", q |-> c.q, p |-> 0, batch |-> <<>>]
    [] c.op = "delete" -> [k |-> "del", q |-> c.q, p |-> MemNext(m[c.q]), batch |-> <<>>]
    [] c.op = "append" -> [k |-> "append", q |-> c.q, p |-> (IF c.pos = -1 THEN MemNext(m[c.q]) ELSE c.pos), batch |-> c.batch]
    [] c.op = "truncate" -> [k |-> "trunc", q |-> c.q, p |-> c.p, batch |-> <<>>]

EntryLen(en) == RecHdr + (IF en.k = "append" THEN SeqSumLens(en.batch) ELSE 0)

WriteEntry(en, f, off, trk) ==
  LET s == SplitEntry(f, off, EntryLen(en), trk) IN
    [effs |-> << <<"ENTRY", en>> >> \o s.effs, file |-> s.file, off |-> s.off, tracked |-> s.tracked]

(* persist_on_policy.  OnDelay persists or not depending on the clock: `due` is chosen          *)
(* nondeterministically at CallBegin; it promises nothing (C03 lists no promise for OnDelay).   *)
PolicyEffs(f, due) ==
  CASE Policy = "always_flush" -> << Eff("FL", f, -1, 0, 0), <<"PROMISE", {"process"}>> >>
    [] Policy = "always_fsync" -> PersistEffs(f) \o << <<"PROMISE", {"process", "power"}>> >>
    [] Policy = "on_delay_flush" /\ due -> << Eff("FL", f, -1, 0, 0) >>
    [] Policy = "on_delay_fsync" /\ due -> PersistEffs(f)
    [] OTHER -> <<>>

(* run_gc_if_necessary: m is the memory AFTER the call's in-memory update, *)
(* (f, off) the cursor after the call's own entry, qorder the order in     *)
(* which the HashMap yields the empty queues.  The plan itself is          *)
(* WalPlan!GcPlanG (shared with the trace specification); here its         *)
(* position-entry markers become ENTRY effects.                            *)
PosEntryOf(m, q) == [k |-> "pos", q |-> q, p |-> MemNext(m[q]), batch |-> <<>>]
GcPlan(m, trk, f, off, qorder) ==
  LET lens == [i \in 1..Len(qorder) |-> EntryLen(PosEntryOf(m, qorder[i]))]
      g == GcPlanG(QRefs(m), trk, f, off, lens, GcAlwaysSyncs)
  IN [effs |-> [i \in 1..Len(g.effs) |->
                   IF g.effs[i][1] = "PE" THEN <<"ENTRY", PosEntryOf(m, qorder[g.effs[i][2]])>> ELSE g.effs[i]],
      file |-> g.file, off |-> g.off, tracked |-> g.tracked]

Orders(S) == IF S = {} THEN {<<>>} ELSE
  LET RECURSIVE Perms(_)
      Perms(T) == IF T = {} THEN {<<>>} ELSE UNION { {<<x>> \o p : p \in Perms(T \ {x})} : x \in T }
  IN Perms(S)

PlanEntry(c, qorder, due) ==
  LET en == EntryOf(c, mem)
      w == WriteEntry(en, wfile, woff, tracked)
      m2 == MemApply(mem, c, wfile)
      memE == << <<"MEM", m2>> >>
      both == {"process", "power"}
  IN CASE c.op = "create" -> w.effs \o PersistEffs(w.file) \o << <<"PROMISE", both>> >> \o memE
       [] c.op = "append" -> w.effs \o PolicyEffs(w.file, due) \o memE
       [] c.op = "truncate" ->
            LET g == GcPlan(m2, w.tracked, w.file, w.off, qorder) IN w.effs \o memE \o g.effs \o PolicyEffs(g.file, due)
       [] c.op = "delete" ->
            LET g == GcPlan(m2, w.tracked, w.file, w.off, qorder) IN
              w.effs \o memE \o g.effs \o PersistEffs(g.file) \o << <<"PROMISE", both>> >>

(* an explicit persist call: c.p = 0 Flush, 1 FlushAndFsync; a rejected / no-op call does nothing *)
Plan(c, qorder, due) ==
  IF c.op = "persist" THEN
       (IF c.p = 1 THEN PersistEffs(wfile) \o << <<"PROMISE", {"process", "power"}>> >>
        ELSE << Eff("FL", wfile, -1, 0, 0), <<"PROMISE", {"process"}>> >>)
  ELSE IF IsRejectOrNoop(AbsOf(mem), c) THEN <<>>
  ELSE PlanEntry(c, qorder, due)

-----------------------------------------------------------------------------
(* Recovery: the reader over an image.                                     *)
(* vis: items with their visible byte counts.  A frame whose visible bytes *)
(* are fewer than its size is torn: fewer than HeaderLen visible bytes ->  *)
(* invalid header (type byte missing) -> the rest of the block is          *)
(* quarantined; header complete -> CRC fails, the frame alone is dropped   *)
(* and the cursor moves over its whole declared extent.                    *)

FrameItemsAt(vis, f, off) ==
  {i \in 1..Len(vis) : ~vis[i].gone /\ vis[i].t # 0 /\ vis[i].file = f /\ vis[i].off = off /\ vis[i].vis > 0}

(* what a payload of class Embeds carries: an append that was never made *)
ForgedEntry == [k |-> "append", q |-> CHOOSE q \in Queues : TRUE, p |-> 77, batch |-> << <<999, 1>> >>]

(* returns [ok, m]: an append in the past aborts open with Corruption *)
RApply(m, en, file) ==
  CASE en.k = "pos" -> [ok |-> TRUE, m |-> IF m[en.q].a /\ Len(m[en.q].recs) = 0 /\ MemNext(m[en.q]) = en.p THEN m
                                            ELSE [m EXCEPT ![en.q] = [a |-> TRUE, start |-> en.p, recs |-> <<>>]]]
    [] en.k = "del" -> [ok |-> TRUE, m |-> [m EXCEPT ![en.q] = MemAbsent]]
    [] en.k = "trunc" -> [ok |-> TRUE, m |-> IF m[en.q].a THEN MemTruncate(m, en.q, en.p) ELSE m]
    [] en.k = "append" ->
         LET m1 == IF m[en.q].a THEN m ELSE [m EXCEPT ![en.q] = [a |-> TRUE, start |-> en.p, recs |-> <<>>]]
         IN IF en.p < MemNext(m1[en.q]) THEN [ok |-> FALSE, m |-> m]
            ELSE [ok |-> TRUE, m |-> MemAppend(m1, en.q, en.p, en.batch, file)]

(* files: sorted sequence of existing file numbers; st = [within, corrupt, efile, ent] *)
RECURSIVE RLoop(_, _, _, _, _, _, _, _)
RLoop(vis, files, szd, fi, blk, cur, st, m) ==
  LET f == files[fi]
      need == (BlockSize - cur) < HeaderLen \/ st.corrupt
      nextInFile == blk + 1 < BlocksPerFile /\ f \in szd
      laterFiles == {j \in (fi + 1)..Len(files) : files[j] \in szd}
  IN IF need /\ ~nextInFile /\ laterFiles = {} THEN [m |-> m, file |-> f, off |-> blk * BlockSize + cur]
     ELSE LET fi2 == IF need /\ ~nextInFile THEN (CHOOSE j \in laterFiles : \A k \in laterFiles : j <= k) ELSE fi
              b == IF need THEN (IF nextInFile THEN blk + 1 ELSE 0) ELSE blk
              c == IF need THEN 0 ELSE cur
              f2 == files[fi2]
              fs == FrameItemsAt(vis, f2, b * BlockSize + c)
              st0 == IF need THEN [st EXCEPT !.corrupt = FALSE] ELSE st
              \* after a damaged length field the cursor may land INSIDE another item: the reader parses payload
              \* bytes as a header.  st0.gmode says what they look like: "badtype" (the rest of the block is
              \* quarantined) or "embeds" (the image of a well-formed frame carrying an entry never appended)
              inside == {i \in 1..Len(vis) : ~vis[i].gone /\ vis[i].file = f2 /\ vis[i].off < b * BlockSize + c
                                              /\ b * BlockSize + c < vis[i].off + vis[i].n /\ vis[i].vis > 0}
          IN IF fs = {} /\ inside # {} /\ st0.gmode = "embeds" THEN
                LET ra == RApply(m, ForgedEntry, st0.efile) IN
                  IF ra.ok THEN RLoop(vis, files, szd, fi2, b, c, [within |-> FALSE, corrupt |-> TRUE, efile |-> f2, gmode |-> "none"], ra.m)
                  ELSE [err |-> TRUE]
             ELSE IF fs = {} /\ inside # {} THEN
                RLoop(vis, files, szd, fi2, b, c, [within |-> FALSE, corrupt |-> TRUE, efile |-> f2, gmode |-> "none"], m)
             ELSE IF fs = {} THEN [m |-> m, file |-> f2, off |-> b * BlockSize + c]
             ELSE LET it == vis[CHOOSE i \in fs : TRUE]
                      c2 == c + it.n
                      \* the entry's file is the reader's file BEFORE it reads the entry
                      noRec == [within |-> FALSE, corrupt |-> FALSE, efile |-> f2, gmode |-> st0.gmode]
                  IN IF it.dmg = "zero" THEN [m |-> m, file |-> f2, off |-> b * BlockSize + c]   \* zeroed header: not available
                     ELSE IF it.vis < HeaderLen \/ it.dmg = "type" \/ (CrcQuarantinesBlock /\ it.dmg = "crc") THEN
                        RLoop(vis, files, szd, fi2, b, c, [noRec EXCEPT !.corrupt = TRUE], m)
                     ELSE IF it.dmg \in {"len_badtype", "len_embeds"} THEN
                        \* the CRC fails; the cursor moves over the DECLARED extent (or the block is quarantined)
                        IF c + it.nlen > BlockSize
                        THEN RLoop(vis, files, szd, fi2, b, c, [noRec EXCEPT !.corrupt = TRUE], m)
                        ELSE RLoop(vis, files, szd, fi2, b, c + it.nlen,
                                   [noRec EXCEPT !.gmode = IF it.dmg = "len_embeds" THEN "embeds" ELSE "badtype"], m)
                     ELSE IF it.vis < it.n \/ it.dmg = "crc" THEN
                        RLoop(vis, files, szd, fi2, b, c2, noRec, m)
                     ELSE LET isFirst == IsFirstType(it.t)
                              isLast == IsLastType(it.t)
                              w1 == isFirst \/ st0.within
                          IN IF w1 /\ isLast
                             THEN LET ra == RApply(m, entries[it.entry], st0.efile) IN
                                    IF ra.ok THEN RLoop(vis, files, szd, fi2, b, c2, noRec, ra.m) ELSE [err |-> TRUE]
                             ELSE RLoop(vis, files, szd, fi2, b, c2, [st0 EXCEPT !.within = w1], m)

SortedSeq(S) ==
  LET RECURSIVE Srt(_)
      Srt(T) == IF T = {} THEN <<>> ELSE LET x == CHOOSE x \in T : \A y \in T : x <= y IN <<x>> \o Srt(T \ {x})
  IN Srt(S)

(* The oldest existing file begins with a fully visible, undamaged continuation frame (Middle / Last): *)
(* the first frame of that entry was in a file that has been unlinked - a GC pass interrupted between   *)
(* two unlinks while the unused files held one multi-file entry.                                        *)
OrphanHead(its, ex) ==
  ex # {} /\ LET lo == CHOOSE f \in ex : \A g \in ex : f <= g IN
              \E i \in 1..Len(its) : /\ its[i].file = lo /\ its[i].off = 0 /\ ~its[i].gone
                                       /\ its[i].dmg = "none" /\ its[i].vis = its[i].n
                                       /\ ~IsFirstType(its[i].t) /\ its[i].t # 0

(* The file an appended record was written into, as the live code attributes it: the file being       *)
(* written when its call began (ghost field af of the entry; payload ids are unique per call).  The    *)
(* attribution rebuilt by a replay is mem[q].recs[i].file.                                             *)
TrueFile(q, rec) ==
  LET es == {e \in 1..Len(entries) : entries[e].k = "append" /\ entries[e].q = q /\
                                       \E j \in 1..Len(entries[e].batch) : entries[e].batch[j][1] = rec.pid}
  IN IF es = {} THEN rec.file ELSE entries[CHOOSE e \in es : \A d \in es : d <= e].af
TrueRefs(m) == UNION { {TrueFile(q, m[q].recs[i]) : i \in 1..Len(m[q].recs)} : q \in {q \in Queues : m[q].a} }

(* open: list, (repair: size the newest file), read, replay *)
Recover(vis, ex, szd0) ==
  IF ex = {} THEN [ok |-> TRUE, m |-> EmptyMem, files |-> {0}, file |-> 0, off |-> 0, fresh |-> TRUE, szd |-> {0}]
  ELSE LET files == SortedSeq(ex)
           last == files[Len(files)]
           szd == IF OpenSizesLast THEN szd0 \cup {last} ELSE szd0
           first == files[1]
       IN IF ~(first \in szd) THEN [ok |-> FALSE]
          ELSE LET r == RLoop(vis, files, szd, 1, 0, 0, [within |-> FALSE, corrupt |-> FALSE, efile |-> first, gmode |-> "none"], EmptyMem)
               IN IF "err" \in DOMAIN r THEN [ok |-> FALSE]
                  ELSE [ok |-> TRUE, m |-> r.m, files |-> ex, file |-> r.file, off |-> r.off, fresh |-> FALSE, szd |-> szd]

-----------------------------------------------------------------------------
(* Initial state: a freshly opened empty directory *)
Init ==
  /\ mem = EmptyMem /\ tracked = {0} /\ wfile = 0 /\ woff = 0
  /\ items = <<>> /\ entries = <<>>
  /\ exists = {0} /\ sized = {0} /\ dirDurable = {}
  /\ buffered = 0 /\ osCnt = 0 /\ lastOs = 0 /\ todo = <<>> /\ mode = "Ready"
  /\ done = EmptyAbs /\ inflight = NoCall
  /\ pendP = << EmptyAbs >> /\ pendW = << EmptyAbs >>
  /\ assigned = [q \in Queues |-> -1] /\ batches = <<>> /\ wsum = 0 /\ wstart = 0
  /\ nops = 0 /\ post = 0 /\ ncrash = 0 /\ verdict = "ok" /\ clean = FALSE /\ lastRet = NoCall
  /\ lastLoss = "none" /\ cfile = 0
  /\ ndamage = 0 /\ damaged = FALSE /\ hits = {} /\ dkinds = {}

(* The calls offered in a state (only calls that really execute: rejected  *)
(* and no-op calls are UNCHANGED by construction, see CallNoop)            *)
(* every rejected / no-op shape (C13): missing queue, existing queue, retry of the last position, *)
(* position in the past, empty batch                                                             *)
NoopCalls(A) ==
       {[NoCall EXCEPT !.op = "create", !.q = q] : q \in {q \in Queues : A[q].a}}
  \cup {[NoCall EXCEPT !.op = op, !.q = q, !.p = 1, !.batch = IF op = "append" THEN << <<nops + 1, 2>> >> ELSE <<>>] :
          op \in {"delete", "truncate", "append"}, q \in {q \in Queues : ~A[q].a}}
  \cup UNION { {[NoCall EXCEPT !.op = "append", !.q = q, !.pos = pos, !.batch = << <<nops + 1, 2>> >>] :
                  pos \in {x \in {A[q].next - 1, A[q].next - 2} : x >= 0}} : q \in {q \in Queues : A[q].a} }
  \cup {[NoCall EXCEPT !.op = "append", !.q = q] : q \in {q \in Queues : A[q].a}}

Ops ==
  LET A == AbsOf(mem) IN
       {[NoCall EXCEPT !.op = "create", !.q = q] : q \in {q \in Queues : ~A[q].a}}
  \cup {[NoCall EXCEPT !.op = "delete", !.q = q] : q \in {q \in Queues : A[q].a}}
  \cup UNION { {[NoCall EXCEPT !.op = "append", !.q = q, !.pos = pos, !.batch = [i \in 1..n |-> <<nops + 1, len>>]] :
                  n \in BatchSizes, len \in PayLens,
                  pos \in {-1} \cup (IF AllowExplicit THEN {A[q].next + 2} ELSE {})} : q \in {q \in Queues : A[q].a} }
  \cup UNION { {[NoCall EXCEPT !.op = "truncate", !.q = q, !.p = p] :
                  p \in {x \in {A[q].next - 2, A[q].next - 1, A[q].next + 1} : x >= 0}} : q \in {q \in Queues : A[q].a} }
  \cup (IF WithPersistCalls THEN {[NoCall EXCEPT !.op = "persist", !.p = a] : a \in {0, 1}} ELSE {})
  \cup (IF WithNoops THEN NoopCalls(A) ELSE {})

CallBegin ==
  /\ mode = "Ready" /\ todo = <<>>
  /\ IF post = 0 THEN nops < MaxOps ELSE post <= MaxPost
  /\ \E c \in Ops :
       \E qorder \in Orders(IF c.op \in {"truncate", "delete"} /\ ~IsRejectOrNoop(AbsOf(mem), c)
                              THEN EmptyQs(MemApply(mem, c, wfile)) ELSE {}),
          due \in (IF Policy \in {"on_delay_flush", "on_delay_fsync"} /\ c.op \in {"append", "truncate"} THEN BOOLEAN ELSE {FALSE}) :
          /\ todo' = Plan(c, qorder, due) \o << <<"RET">> >>
          /\ inflight' = c
  /\ nops' = nops + 1 /\ post' = IF post > 0 THEN post + 1 ELSE 0
  /\ lastOs' = 0 /\ wstart' = wsum /\ cfile' = wfile
  /\ UNCHANGED <<mem, tracked, wfile, woff, items, entries, exists, sized, dirDurable, buffered, osCnt, mode,
                 done, pendP, pendW, assigned, batches, wsum, ncrash, verdict, clean, lastRet, lastLoss, ndamage, damaged, hits, dkinds>>

-----------------------------------------------------------------------------
(* Steps: one disjunct per effect kind *)
Ef == Head(todo)
Pop == todo' = Tail(todo)
StepGuard(kind) == mode = "Ready" /\ todo # <<>> /\ Ef[1] = kind

StepEntry ==
  /\ StepGuard("ENTRY") /\ Pop
  \* af: the file being written when the call began - the file the live code attributes the
  \* entry's records to (C06's "file into which the record was written", DESIGN 4/C06)
  /\ entries' = Append(entries, ("af" :> cfile) @@ Ef[2])
  /\ lastOs' = 0
  /\ UNCHANGED <<mem, tracked, wfile, woff, items, exists, sized, dirDurable, buffered, osCnt, mode, done, inflight,
                 pendP, pendW, assigned, batches, wsum, wstart, nops, post, ncrash, verdict, clean, lastRet, lastLoss, cfile, ndamage, damaged, hits, dkinds>>

(* BufWriter of capacity BlockSize: a write that does not fit the spare    *)
(* capacity first flushes; a write of at least the capacity bypasses it.   *)
(* A write on top of torn garbage (header torn in the last block of the    *)
(* last file) replaces it.                                                 *)
StepWrite ==
  /\ StepGuard("W") /\ Pop
  /\ LET x == Ef
         sz == ENum(x)
         flushFirst == sz > BlockSize - buffered
         b1 == IF flushFirst THEN 0 ELSE buffered
         direct == sz >= BlockSize
         covered(it) == ~it.gone /\ it.file = EFile(x) /\ it.off >= EOff(x) /\ it.off < EOff(x) + sz
         base == SelectSeq(items, LAMBDA it : ~covered(it))
         removedOs == LET RECURSIVE S(_)
                          S(n) == IF n = 0 THEN 0 ELSE S(n - 1) + (IF covered(items[n]) THEN items[n].vis ELSE 0)
                      IN S(Len(items))
         tot == Total - removedOs
         os0 == osCnt - removedOs
         it == [file |-> EFile(x), off |-> EOff(x), n |-> sz, t |-> EType(x), entry |-> Len(entries),
                vis |-> sz, sy |-> FALSE, gone |-> FALSE, dmg |-> "none", nlen |-> sz]
     IN /\ items' = Append(base, it)
        /\ osCnt' = IF direct THEN tot + sz ELSE IF flushFirst THEN tot ELSE os0
        /\ buffered' = IF direct THEN 0 ELSE b1 + sz
        /\ wfile' = EFile(x) /\ woff' = EOff(x) + sz
        /\ wsum' = wsum + sz
        /\ lastOs' = osCnt' - os0
  /\ UNCHANGED <<mem, tracked, entries, exists, sized, dirDurable, mode, done, inflight, pendP, pendW, assigned,
                 batches, wstart, nops, post, ncrash, verdict, clean, lastRet, lastLoss, cfile, ndamage, damaged, hits, dkinds>>

StepFlush ==
  /\ StepGuard("FL") /\ Pop
  /\ osCnt' = Total /\ buffered' = 0 /\ lastOs' = Total - osCnt
  /\ UNCHANGED <<mem, tracked, wfile, woff, items, entries, exists, sized, dirDurable, mode, done, inflight,
                 pendP, pendW, assigned, batches, wsum, wstart, nops, post, ncrash, verdict, clean, lastRet, lastLoss, cfile, ndamage, damaged, hits, dkinds>>

(* fdatasync(f): everything of file f that is at the OS becomes durable    *)
StepFsync ==
  /\ StepGuard("FS") /\ Pop
  /\ items' = [i \in 1..Len(items) |-> IF items[i].file = EFile(Ef) /\ ~items[i].gone THEN [items[i] EXCEPT !.sy = TRUE] ELSE items[i]]
  /\ lastOs' = 0
  /\ UNCHANGED <<mem, tracked, wfile, woff, entries, exists, sized, dirDurable, buffered, osCnt, mode, done, inflight,
                 pendP, pendW, assigned, batches, wsum, wstart, nops, post, ncrash, verdict, clean, lastRet, lastLoss, cfile, ndamage, damaged, hits, dkinds>>

(* directory fsync: creations and unlinks so far become durable            *)
StepDirSync ==
  /\ StepGuard("DS") /\ Pop
  /\ dirDurable' = exists
  /\ items' = SelectSeq(items, LAMBDA it : ~it.gone)
  /\ lastOs' = 0
  /\ UNCHANGED <<mem, tracked, wfile, woff, entries, exists, sized, buffered, osCnt, mode, done, inflight,
                 pendP, pendW, assigned, batches, wsum, wstart, nops, post, ncrash, verdict, clean, lastRet, lastLoss, cfile, ndamage, damaged, hits, dkinds>>

StepOpenNext ==
  /\ StepGuard("OP") /\ Pop
  /\ tracked' = tracked \cup {EFile(Ef)}
  /\ lastOs' = 0
  /\ UNCHANGED <<mem, wfile, woff, items, entries, exists, sized, dirDurable, buffered, osCnt, mode, done, inflight,
                 pendP, pendW, assigned, batches, wsum, wstart, nops, post, ncrash, verdict, clean, lastRet, lastLoss, cfile, ndamage, damaged, hits, dkinds>>

StepCreate ==
  /\ StepGuard("CR") /\ Pop
  /\ tracked' = tracked \cup {EFile(Ef)} /\ exists' = exists \cup {EFile(Ef)}
  /\ lastOs' = 0
  /\ UNCHANGED <<mem, wfile, woff, items, entries, sized, dirDurable, buffered, osCnt, mode, done, inflight,
                 pendP, pendW, assigned, batches, wsum, wstart, nops, post, ncrash, verdict, clean, lastRet, lastLoss, cfile, ndamage, damaged, hits, dkinds>>

StepSetLen ==
  /\ StepGuard("SL") /\ Pop
  /\ sized' = sized \cup {EFile(Ef)}
  /\ lastOs' = 0
  /\ UNCHANGED <<mem, tracked, wfile, woff, items, entries, exists, dirDurable, buffered, osCnt, mode, done, inflight,
                 pendP, pendW, assigned, batches, wsum, wstart, nops, post, ncrash, verdict, clean, lastRet, lastLoss, cfile, ndamage, damaged, hits, dkinds>>

(* unlink: the file disappears from the directory; its content stays       *)
(* recoverable (power loss) until the next directory fsync                 *)
StepUnlink ==
  /\ StepGuard("UL") /\ Pop
  /\ LET f == EFile(Ef)
         goneOs == LET RECURSIVE S(_)
                       S(n) == IF n = 0 THEN 0 ELSE S(n - 1) + (IF items[n].file = f /\ ~items[n].gone THEN items[n].vis ELSE 0)
                   IN S(Len(items))
     IN /\ exists' = exists \ {f} /\ sized' = sized \ {f} /\ tracked' = tracked \ {f}
        /\ items' = [i \in 1..Len(items) |-> IF items[i].file = f THEN [items[i] EXCEPT !.gone = TRUE] ELSE items[i]]
        /\ osCnt' = osCnt - goneOs
  /\ lastOs' = 0
  /\ UNCHANGED <<mem, wfile, woff, entries, dirDurable, buffered, mode, done, inflight,
                 pendP, pendW, assigned, batches, wsum, wstart, nops, post, ncrash, verdict, clean, lastRet, lastLoss, cfile, ndamage, damaged, hits, dkinds>>

StepMem ==
  /\ StepGuard("MEM") /\ Pop
  /\ mem' = Ef[2]
  /\ lastOs' = 0
  /\ UNCHANGED <<tracked, wfile, woff, items, entries, exists, sized, dirDurable, buffered, osCnt, mode, done, inflight,
                 pendP, pendW, assigned, batches, wsum, wstart, nops, post, ncrash, verdict, clean, lastRet, lastLoss, cfile, ndamage, damaged, hits, dkinds>>

StepPromise ==
  /\ StepGuard("PROMISE") /\ Pop
  /\ LET st == Apply(done, inflight) IN
       /\ pendP' = IF "process" \in Ef[2] THEN << st >> ELSE pendP
       /\ pendW' = IF "power" \in Ef[2] THEN << st >> ELSE pendW
  /\ lastOs' = 0
  /\ UNCHANGED <<mem, tracked, wfile, woff, items, entries, exists, sized, dirDurable, buffered, osCnt, mode, done,
                 inflight, assigned, batches, wsum, wstart, nops, post, ncrash, verdict, clean, lastRet, lastLoss, cfile, ndamage, damaged, hits, dkinds>>

(* a truncate / delete issued on a queue legitimises the loss of leading records of its earlier batches *)
TruncBatches(bs, c) ==
  [i \in 1..Len(bs) |->
     IF bs[i].q = c.q THEN [bs[i] EXCEPT !.tp = IF c.op = "delete" THEN 1000000 ELSE QmMax(@, c.p)] ELSE bs[i]]

AddPend(pend, st) == IF pend[Len(pend)] = st THEN pend ELSE Append(pend, st)

StepReturn ==
  /\ StepGuard("RET") /\ Pop
  /\ LET st == Apply(done, inflight) IN
       /\ done' = st
       /\ pendP' = AddPend(pendP, st) /\ pendW' = AddPend(pendW, st)
       /\ assigned' = AssignedAfter(assigned, done, inflight)
       /\ batches' = IF inflight.op \in {"truncate", "delete"} /\ ~IsRejectOrNoop(done, inflight)
                     THEN TruncBatches(batches, inflight)
                     ELSE IF inflight.op = "append" /\ ~IsRejectOrNoop(done, inflight)
                     THEN Append(batches, [q |-> inflight.q, tp |-> -1,
                                           recs |-> LET s == AppendStart(done[inflight.q], inflight) IN
                                                      [i \in 1..Len(inflight.batch) |-> <<s + i - 1, inflight.batch[i][1], inflight.batch[i][2]>>]])
                     ELSE batches
  /\ lastRet' = inflight /\ inflight' = NoCall
  /\ lastOs' = 0
  /\ UNCHANGED <<mem, tracked, wfile, woff, items, entries, exists, sized, dirDurable, buffered, osCnt, mode,
                 wsum, wstart, nops, post, ncrash, verdict, clean, lastLoss, cfile, ndamage, damaged, hits, dkinds>>

Step == StepEntry \/ StepWrite \/ StepFlush \/ StepFsync \/ StepDirSync \/ StepOpenNext \/ StepCreate
        \/ StepSetLen \/ StepUnlink \/ StepMem \/ StepPromise \/ StepReturn

-----------------------------------------------------------------------------
(* Adversary: crash.  process: what is at the OS survives, plus any prefix *)
(* of the write in flight.  power: only what fdatasync covered survives;   *)
(* directory operations since the last directory fsync are either all      *)
(* durable or all lost.                                                    *)

RECURSIVE CutVisible(_, _, _, _)
CutVisible(its, i, budget, acc) ==
  IF i > Len(its) THEN acc
  \* (items of an unlinked file stay as they are: the unlink is not durable before the next directory
  \* fsync, and a LATER power loss may bring the file back with the content it had)
  ELSE IF its[i].gone THEN CutVisible(its, i + 1, budget, Append(acc, its[i]))
  ELSE LET v == FrMin(its[i].vis, budget) IN
         CutVisible(its, i + 1, budget - v,
                    IF v > 0 THEN Append(acc, [its[i] EXCEPT !.vis = v]) ELSE acc)

CrashCommon ==
  /\ mode = "Ready" /\ ncrash < MaxCrashes /\ nops >= MinOpsBeforeCrash
  /\ mode' = "Closed" /\ todo' = <<>> /\ buffered' = 0 /\ mem' = EmptyMem
  /\ post' = 1 /\ lastOs' = 0 /\ clean' = FALSE /\ ncrash' = ncrash + 1
  /\ UNCHANGED <<tracked, wfile, woff, entries, done, inflight, pendP, pendW, assigned, batches, wsum, wstart,
                 nops, verdict, lastRet, cfile, ndamage, damaged, hits, dkinds>>

CrashProcess ==
  /\ "process" \in LossModels
  /\ CrashCommon
  /\ lastLoss' = "process"
  /\ \E cut \in (osCnt - lastOs)..osCnt :
       /\ items' = CutVisible(items, 1, cut, <<>>)
       /\ osCnt' = cut
  /\ UNCHANGED <<exists, sized, dirDurable>>

HasSynced(f) == \E i \in 1..Len(items) : items[i].file = f /\ items[i].sy

CrashPower ==
  /\ "power" \in LossModels
  /\ CrashCommon
  /\ lastLoss' = "power"
  /\ \E metaDurable \in BOOLEAN, lenDurable \in BOOLEAN :
       LET ex2 == IF metaDurable THEN exists ELSE dirDurable
           keep == SelectSeq(items, LAMBDA it : it.sy /\ it.file \in ex2 /\ (metaDurable => ~it.gone))
       IN /\ exists' = ex2
          \* a name durable since the last directory fsync was sized before it; the length of a
          \* file that was never fdatasynced may or may not have reached the disk
          /\ sized' = IF metaDurable
                      THEN (IF lenDurable THEN sized ELSE {f \in sized : f \in dirDurable \/ HasSynced(f)})
                      ELSE dirDurable
          /\ items' = [i \in 1..Len(keep) |-> [keep[i] EXCEPT !.gone = FALSE]]
          /\ osCnt' = LET RECURSIVE S(_)
                          S(n) == IF n = 0 THEN 0 ELSE S(n - 1) + keep[n].vis
                      IN S(Len(keep))
          \* what the disk holds after a power loss is, by definition, durable
          /\ dirDurable' = ex2

(* clean close: BufWriter's destructor flushes *)
Restart ==
  /\ mode = "Ready" /\ todo = <<>> /\ nops > 0 /\ ~clean
  /\ osCnt' = Total /\ buffered' = 0
  /\ mode' = "Closed" /\ mem' = EmptyMem /\ post' = post + 1 /\ lastOs' = 0 /\ clean' = TRUE
  /\ UNCHANGED <<tracked, wfile, woff, items, entries, exists, sized, dirDurable, todo, done, inflight, pendP, pendW,
                 assigned, batches, wsum, wstart, nops, ncrash, verdict, lastRet, lastLoss, cfile, ndamage, damaged, hits, dkinds>>

-----------------------------------------------------------------------------
(* What a recovery may legitimately produce: see okState *)

(* Damage at rest (C08 / C09 / C12 at the design level): after a clean close, a frame's payload or    *)
(* checksum is altered ("crc": the frame alone is dropped), its type byte is made invalid ("type":   *)
(* the rest of its block is quarantined) or its header is zeroed ("zero": replay stops there).       *)
(* "len_badtype" / "len_embeds": the length field is altered: the CRC fails and the reader            *)
(* resynchronises at the declared extent - on a later frame, or INSIDE payload bytes, which then look *)
(* like an invalid header (badtype) or like a well-formed frame carrying a forged entry (embeds: the  *)
(* payload class of the known finding D4; MC_Damage_D4_selftest.cfg shows TLC reproduces it).         *)
Damage ==
  /\ mode = "Closed" /\ clean /\ ndamage < MaxDamage
  /\ \E i \in 1..Len(items), kind \in DamageKinds :
       /\ items[i].t # 0 /\ ~items[i].gone /\ items[i].vis = items[i].n /\ items[i].dmg = "none"
       /\ items[i].file \in exists
       /\ IF kind \in {"len_badtype", "len_embeds"}
          THEN \E nl \in (HeaderLen..(BlockSize + 1)) \ {items[i].n} : items' = [items EXCEPT ![i].dmg = kind, ![i].nlen = nl]
          ELSE items' = [items EXCEPT ![i].dmg = kind]
       /\ hits' = hits \cup {items[i].entry}
       /\ dkinds' = dkinds \cup {kind}
  /\ ndamage' = ndamage + 1 /\ damaged' = TRUE
  \* no further calls after header damage: the writer may resume in front of stale frames
  /\ post' = IF dkinds' = {"crc"} THEN post ELSE MaxPost + 1
  /\ UNCHANGED <<mem, tracked, wfile, woff, entries, exists, sized, dirDurable, buffered, osCnt, lastOs, todo, mode,
                 done, inflight, pendP, pendW, assigned, batches, wsum, wstart, nops, ncrash, verdict, clean, lastRet,
                 lastLoss, cfile>>

GenuineRec(q, rec) == \E i \in 1..Len(batches) : batches[i].q = q /\ \E j \in 1..Len(batches[i].recs) : batches[i].recs[j] = rec
CoveredByHit(q, rec) ==
  \E e \in hits : entries[e].k = "append" /\ entries[e].q = q /\ entries[e].p <= rec[1] /\ rec[1] < entries[e].p + Len(entries[e].batch)
DamageOk(x) ==
  \* C08: only genuine records
  /\ \A q \in Queues : x[q].a => \A j \in 1..Len(x[q].recs) : GenuineRec(q, x[q].recs[j])
  \* C09: payload/CRC damage of one frame costs at most the entry it belongs to
  /\ (ndamage = 1 /\ dkinds = {"crc"}) =>
        \A q \in Queues : done[q].a =>
          \A j \in 1..Len(done[q].recs) :
             CoveredByHit(q, done[q].recs[j]) \/ (x[q].a /\ \E k \in 1..Len(x[q].recs) : x[q].recs[k] = done[q].recs[j])

Open ==
  /\ mode = "Closed"
  /\ LET r == Recover(items, exists, sized) IN
       IF ~r.ok THEN
          \* after damage open may report Corruption, except after payload/CRC damage of a single frame (C09)
          /\ verdict' = IF damaged /\ ~(ndamage = 1 /\ dkinds = {"crc"}) THEN verdict ELSE "openfail"
          /\ UNCHANGED <<mem, tracked, wfile, woff, exists, sized, todo, mode, done, pendP, pendW, inflight, assigned, items,
                         lastRet, cfile>>
       ELSE
          LET x == AbsOf(r.m)
              okState == IF clean THEN x = done
                         ELSE x \in AllowedAfterCrash(done, inflight)
                              \/ (lastLoss = "process" /\ \E i \in 1..Len(pendP) : x = pendP[i])
                              \/ (lastLoss = "power" /\ \E i \in 1..Len(pendW) : x = pendW[i])
              g == GcPlan(r.m, r.files, r.file, r.off, SortedSeq(EmptyQs(r.m)))
              dmgOk == DamageOk(x)
          IN /\ verdict' = IF damaged THEN (IF dmgOk THEN verdict ELSE "damage") ELSE IF okState THEN verdict ELSE "notallowed"
             /\ mem' = r.m /\ tracked' = r.files /\ wfile' = r.file /\ woff' = r.off
             /\ exists' = r.files /\ sized' = r.szd
             \* what the OS holds now is x; what is DURABLE is x only after a power loss (a clean
             \* close flushes but does not fsync; a process-crash image was not necessarily synced)
             /\ done' = x /\ pendP' = << x >> /\ inflight' = NoCall
             /\ pendW' = IF lastLoss = "power" /\ ~clean THEN << x >> ELSE AddPend(pendW, x)
             \* C04 speaks of crashes under a flush-per-operation policy (process model): there the
             \* ghost survives; elsewhere a crash legitimately loses unpersisted positions
             /\ assigned' = IF clean \/ (Policy \in {"always_flush", "always_fsync"} /\ lastLoss = "process")
                            THEN [q \in Queues |-> IF ~x[q].a THEN -1
                                                   ELSE IF inflight.op = "create" /\ inflight.q = q THEN -1
                                                   ELSE assigned[q]]
                            ELSE [q \in Queues |-> IF x[q].a THEN x[q].next - 1 ELSE -1]
             /\ todo' = g.effs
             /\ mode' = "Ready"
             \* C06 "and after open": the file being written when the GC pass of open begins is the one
             \* recovery resumed the writer in
             \* (p = 1 marks an image whose oldest file begins with a continuation frame: finding D7)
             /\ lastRet' = [NoCall EXCEPT !.op = "open", !.p = IF OrphanHead(items, exists) THEN 1 ELSE 0] /\ cfile' = r.file
             \* torn items stay as they are (garbage behind or under the cursor)
             /\ items' = items
  /\ lastOs' = 0
  /\ damaged' = FALSE
  /\ batches' = IF inflight.op \in {"truncate", "delete"} /\ ~IsRejectOrNoop(done, inflight) THEN TruncBatches(batches, inflight) ELSE batches
  /\ UNCHANGED <<entries, dirDurable, buffered, osCnt, wsum, wstart, nops, post, ncrash, clean, lastLoss, ndamage, hits, dkinds>>

Next == CallBegin \/ Step \/ CrashProcess \/ CrashPower \/ Restart \/ Open \/ Damage

Spec == Init /\ [][Next]_vars

-----------------------------------------------------------------------------
(* Properties *)

(* C02 / C03 / C01: every recovery succeeds and yields an allowed state *)
VerdictOk == verdict = "ok"

(* C05 / C01: at rest, memory is exactly what the API promised *)
Refines == (mode = "Ready" /\ todo = <<>>) => AbsOf(mem) = done

(* C04 *)
NextAboveAssigned == (mode = "Ready" /\ todo = <<>>) => \A q \in Queues : mem[q].a => MemNext(mem[q]) > assigned[q]

(* C12: every batch ever appended is present entirely, not at all, or as an upper segment *)
BatchAtomic ==
  (mode = "Ready" /\ todo = <<>>) =>
    \A i \in 1..Len(batches) :
      LET b == batches[i]
          x == AbsOf(mem)
          n == Len(b.recs)
          present == IF x[b.q].a THEN {j \in 1..n : \E k \in 1..Len(x[b.q].recs) : x[b.q].recs[k] = b.recs[j]} ELSE {}
      IN present = {} \/ \E k \in 1..n : present = k..n /\ \A j \in 1..(k - 1) : b.recs[j][1] <= b.tp

(* C06: after truncate / delete (and after open's GC) the files are a contiguous run ending at *)
(* the writer's file, none older than the oldest attribution / the file at call start          *)
MinOf(S) == CHOOSE x \in S : \A y \in S : x <= y
FilesBound ==
  (mode = "Ready" /\ todo = <<>> /\ lastRet.op \in {"truncate", "delete"} /\ wsum # wstart /\ ncrash = 0) =>
     LET lo == MinOf(exists)
         refs == QRefs(mem)
         bound == IF refs = {} THEN cfile ELSE FrMin(MinOf(refs), cfile)
     IN /\ exists = lo..wfile
        /\ tracked = exists
        /\ lo >= bound

(* the same once the GC pass that ends an open is done - a clean restart or the recovery of any   *)
(* crash image (C06 "and after open")                                                             *)
(* The bound is taken from where the retained records were really WRITTEN (TrueRefs), not from the     *)
(* replay's attribution.  FilesBoundOpenStrict fails on the images of finding D7 (MC_D7_selftest.cfg);  *)
(* FilesBoundOpen is the same statement outside that class.                                            *)
FilesBoundOpenBody ==
     LET lo == MinOf(exists)
         refs == TrueRefs(mem)
         bound == IF refs = {} THEN cfile ELSE FrMin(MinOf(refs), cfile)
     IN /\ exists = lo..wfile
        /\ tracked = exists
        /\ lo >= bound
FilesBoundOpenStrict ==
  (mode = "Ready" /\ todo = <<>> /\ lastRet.op = "open" /\ ~damaged /\ ndamage = 0) => FilesBoundOpenBody
FilesBoundOpen ==
  (mode = "Ready" /\ todo = <<>> /\ lastRet.op = "open" /\ lastRet.p = 0 /\ ~damaged /\ ndamage = 0) => FilesBoundOpenBody

(* C13: a rejected or no-op call leaves no trace: when it returns, nothing was written, the cursor, *)
(* the files and the memory are what they were when it began                                       *)
NoTrace ==
  (mode = "Ready" /\ todo = <<>> /\ lastRet.op # "none" /\ lastRet.op # "persist" /\ ncrash = 0 /\ post = 0) =>
     TRUE
NoTraceStep ==
  (mode = "Ready" /\ todo # <<>> /\ inflight.op \notin {"none", "persist"} /\ IsRejectOrNoop(done, inflight)) =>
     (todo = << <<"RET">> >> /\ wsum = wstart)

(* C15: the running sum of written bytes is the stream distance *)
BytesTrack == (ncrash = 0 /\ post = 0) => wsum = wfile * FileSize + woff

(* the BufWriter never holds more than its capacity, and what is at the OS is a prefix *)
BufInv == (mode = "Closed") \/ (buffered <= BlockSize /\ osCnt + buffered = Total)

(* everything ahead of the write cursor is zero: the writer never resumes in front of old bytes *)
ZerosAhead ==
  (mode = "Ready") => \A i \in 1..Len(items) :
      (~items[i].gone /\ items[i].t # 0 /\ items[i].vis = items[i].n) =>   \* padding is zeros
          items[i].file < wfile \/ (items[i].file = wfile /\ items[i].off + items[i].n <= woff) \/ items[i].file \notin exists
=============================================================================
