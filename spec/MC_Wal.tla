------------------------------- MODULE MC_Wal -------------------------------
(* Model-checking wrapper of Wal.tla.                                        *)
(*                                                                           *)
(* Vacuity witnesses without TLC's -coverage (whose start-up walk of the      *)
(* semantic graph is super-linear in the nesting of this specification's     *)
(* definitions): every worker prints "ACT|<action>" the first time it takes   *)
(* an action; bin/check requires every action listed in the recipe to have    *)
(* been printed by at least one worker.                                       *)
EXTENDS Wal

ActNames == << "CallBegin", "StepEntry", "StepWrite", "StepFlush", "StepFsync", "StepDirSync", "StepOpenNext",
               "StepCreate", "StepSetLen", "StepUnlink", "StepMem", "StepPromise", "StepReturn",
               "CrashProcess", "CrashPower", "Restart", "Open", "OpenFailed", "Damage" >>

StepName(kind) ==
  CASE kind = "ENTRY" -> "StepEntry" [] kind = "W" -> "StepWrite" [] kind = "FL" -> "StepFlush"
    [] kind = "FS" -> "StepFsync" [] kind = "DS" -> "StepDirSync" [] kind = "OP" -> "StepOpenNext"
    [] kind = "CR" -> "StepCreate" [] kind = "SL" -> "StepSetLen" [] kind = "UL" -> "StepUnlink"
    [] kind = "MEM" -> "StepMem" [] kind = "PROMISE" -> "StepPromise" [] kind = "RET" -> "StepReturn"

(* which action led from the unprimed to the primed state *)
ActTaken ==
  IF mode = "Ready" /\ mode' = "Closed" THEN
       (IF ncrash' > ncrash THEN (IF lastLoss' = "power" THEN "CrashPower" ELSE "CrashProcess") ELSE "Restart")
  ELSE IF mode = "Closed" THEN (IF ndamage' > ndamage THEN "Damage" ELSE IF mode' = "Ready" THEN "Open" ELSE "OpenFailed")
  ELSE IF todo = <<>> THEN "CallBegin"
  ELSE StepName(Head(todo)[1])

Index(name) == CHOOSE i \in 1..Len(ActNames) : ActNames[i] = name

Note(name) == IF TLCGet(Index(name)) = 0 THEN PrintT("ACT|" \o name) /\ TLCSet(Index(name), 1) ELSE TRUE

MCInit == Init /\ \A i \in 1..Len(ActNames) : TLCSet(i, 0)
MCNext == Next /\ Note(ActTaken)
=============================================================================
