------------------------------- MODULE MC_Wal -------------------------------
EXTENDS Wal
(* state constraint / view helpers for the model-checking configurations *)
=============================================================================
