----------------------------- MODULE QueueMapMC -----------------------------
(* The abstract spec as a state machine, explored exhaustively (MC_QueueMap). *)
EXTENDS QueueMap
(* A small state machine over this abstract spec, for MC_QueueMap.          *)
CONSTANTS Queues,        \* set of queue ids (naturals)
          MaxPos,        \* positions explored: 0..MaxPos
          MaxCalls,
          Pids           \* payload ids

VARIABLES qm, assigned, ncalls, lastCall, lastRes, prevQm, prevAssigned
qvars == <<qm, assigned, ncalls, lastCall, lastRes, prevQm, prevAssigned>>

QInit ==
  /\ qm = [q \in Queues |-> Absent]
  /\ assigned = [q \in Queues |-> -1]
  /\ ncalls = 0 /\ lastCall = NoCall /\ lastRes = ResOk(-1, 0)
  /\ prevQm = qm /\ prevAssigned = assigned

Batches == {<<>>} \cup {<<<<p, 1>>>> : p \in Pids} \cup {<<<<p, 1>>, <<p, 0>>>> : p \in Pids}

Calls ==
       {[NoCall EXCEPT !.op = "create", !.q = q] : q \in Queues}
  \cup {[NoCall EXCEPT !.op = "delete", !.q = q] : q \in Queues}
  \cup {[NoCall EXCEPT !.op = "append", !.q = q, !.pos = pos, !.batch = b] :
           q \in Queues, pos \in -1..MaxPos, b \in Batches}
  \cup {[NoCall EXCEPT !.op = "truncate", !.q = q, !.p = p] : q \in Queues, p \in 0..MaxPos}

QNext ==
  /\ ncalls < MaxCalls
  /\ \E c \in Calls :
       /\ lastCall' = c
       /\ lastRes' = Result(qm, c)
       /\ qm' = Apply(qm, c)
       /\ assigned' = AssignedAfter(assigned, qm, c)
       /\ prevQm' = qm /\ prevAssigned' = assigned
  /\ ncalls' = ncalls + 1

QSpec == QInit /\ [][QNext]_qvars

(* Invariants of the abstract spec *)
QWellFormed == \A q \in Queues : WellFormedQ(qm[q])

(* C04: positions returned by a completed append are above everything     *)
(* assigned before in this incarnation; next stays above assigned.         *)
QNextAboveAssigned == \A q \in Queues : qm[q].a => qm[q].next > assigned[q]
QPositionsNeverReused ==
  (lastCall.op = "append" /\ lastRes.k = "ok" /\ lastRes.last # -1) =>
      lastRes.last - Len(lastCall.batch) + 1 > prevAssigned[lastCall.q]

(* C18 (abstract): a call changes only the addressed queue.                *)
QFrame == \A q \in Queues : q # lastCall.q => qm[q] = prevQm[q]

(* C18 (abstract), projection form: result and effect of a call are those it has in the history *)
(* projected onto the addressed queue (every other queue absent).                               *)
ProjectOn(m, q) == [r \in Queues |-> IF r = q THEN m[r] ELSE Absent]
QProjection ==
  LET q == lastCall.q IN
    lastCall.op # "none" =>
      /\ lastRes = Result(ProjectOn(prevQm, q), lastCall)
      /\ qm[q] = Apply(ProjectOn(prevQm, q), lastCall)[q]

(* C18 across crashes: whatever an interrupted call may leave behind (AllowedAfterCrash, the C02  *)
(* tolerance) differs from the state before the call only at the addressed queue.  Together with  *)
(* Wal's invariants Refines (memory = abstract state at rest) and VerdictOk (every recovery is in  *)
(* AllowedAfterCrash) this is the design-level argument for queue isolation.                       *)
QCrashFrame ==
  \A x \in AllowedAfterCrash(prevQm, lastCall) : \A q \in Queues : q # lastCall.q => x[q] = prevQm[q]

(* C13 (abstract): rejected and no-op calls change nothing.                *)
QNoTrace == IsRejectOrNoop(prevQm, lastCall) => qm = prevQm /\ assigned = prevAssigned

(* C05 coherence of the observers *)
QObservers ==
  \A q \in Queues : qm[q].a =>
     /\ RangeOf(qm[q], <<0, 0>>, <<0, 0>>) = qm[q].recs
     /\ (Len(qm[q].recs) > 0 => /\ LastRecord(qm[q]) = qm[q].recs[Len(qm[q].recs)]
                                /\ RPos(LastRecord(qm[q])) = LastPosition(qm[q]))
     /\ \A lo \in 0..MaxPos : Len(RangeOf(qm[q], <<0, 0>>, <<2, lo>>)) + Len(RangeOf(qm[q], <<1, lo>>, <<0, 0>>))
                                  = Len(qm[q].recs)
     /\ \A lo \in 0..MaxPos : Len(RangeOf(qm[q], <<0, 0>>, <<1, lo>>)) + Len(RangeOf(qm[q], <<2, lo>>, <<0, 0>>))
                                  = Len(qm[q].recs)

(* The eviction count equals the shrinkage; truncation moves an emptied    *)
(* queue forward to p + 1.                                                 *)
QTruncate ==
  (lastCall.op = "truncate" /\ lastRes.k = "ok") =>
     LET q == lastCall.q IN
       /\ lastRes.evicted = Len(prevQm[q].recs) - Len(qm[q].recs)
       /\ \A i \in 1..Len(qm[q].recs) : RPos(qm[q].recs[i]) > lastCall.p
       /\ (Len(qm[q].recs) = 0 => qm[q].next >= lastCall.p + 1)
       /\ qm[q].next >= prevQm[q].next
=============================================================================
