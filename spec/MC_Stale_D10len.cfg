CONSTANTS
  B = 4
  NBlocks = 3
  Lens = {0, 1, 3, 4, 5}
  MaxAppends = 4
  MaxCrashes = 2
  MaxDamage = 1
  DamageKinds = {"len"}
  PayZero = {FALSE, TRUE}
  EndOnBadHeader = FALSE
  ClearBehind = FALSE
INIT Init
NEXT Next
INVARIANTS NoSplice NoDamageExact TypeOk
CHECK_DEADLOCK FALSE
