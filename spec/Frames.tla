------------------------------- MODULE Frames -------------------------------
(***************************************************************************)
(* The arithmetic of the frame / record / rolling-file layers, as pure     *)
(* operators, parametric in the geometry.  The SAME module is              *)
(*  - model-checked exhaustively with tiny constants (MC_Frames),          *)
(*  - evaluated with the real constants (32768 / 7 / 4) against every      *)
(*    frame the real writer produced (WalTrace, FramesTrace).              *)
(*                                                                         *)
(* Writer (src/frame/writer.rs, src/recordlog/writer.rs,                   *)
(* src/rolling/directory.rs):                                              *)
(*  - Rem(off) = BlockSize - off % BlockSize; an offset exactly on a block *)
(*    (or file) end has Rem = BlockSize;                                   *)
(*  - if Rem < HeaderLen the writer first pads the block with Rem zeros;   *)
(*  - a frame carries Min(rest, MaxWritable) payload bytes;                *)
(*  - the roll-over happens inside the write that would exceed the file:   *)
(*    flush, fdatasync(old), dir-sync, then open-existing or create+set_len*)
(*    of the next file.                                                    *)
(***************************************************************************)
EXTENDS Integers, Sequences, FiniteSets

CONSTANTS BlockSize, HeaderLen, BlocksPerFile

FileSize == BlockSize * BlocksPerFile

FrMin(a, b) == IF a < b THEN a ELSE b

Rem(off) == BlockSize - (off % BlockSize)
MaxWritable(off) == IF Rem(off) >= HeaderLen THEN Rem(off) - HeaderLen ELSE BlockSize - HeaderLen

\* frame type codes as on disk
TFull == 1
TFirst == 2
TMiddle == 3
TLast == 4
FType(first, last) == IF first /\ last THEN TFull ELSE IF first THEN TFirst ELSE IF last THEN TLast ELSE TMiddle
IsFirstType(t) == t \in {TFull, TFirst}
IsLastType(t) == t \in {TFull, TLast}

(* An effect is a tuple <<kind, file, offset, n, type>>:                    *)
(*   "W"  buffered write of n bytes at (file, offset); type = frame type,   *)
(*        0 for padding                                                     *)
(*   "FL" flush, "FS" fdatasync(file), "DS" directory sync,                 *)
(*   "OP" open existing file, "CR" create file, "SL" set_len(file, n),      *)
(*   "UL" unlink(file)                                                      *)
Eff(e, f, o, n, t) == <<e, f, o, n, t>>
EKind(x) == x[1]
EFile(x) == x[2]
EOff(x) == x[3]
ENum(x) == x[4]
EType(x) == x[5]

NextTracked(tracked, f) ==
  LET later == {g \in tracked : g > f} IN
    IF later = {} THEN -1 ELSE CHOOSE g \in later : \A h \in later : g <= h

RollEffs(f, tracked) ==
  LET nx == NextTracked(tracked, f) IN
    << Eff("FL", f, -1, 0, 0), Eff("FS", f, -1, 0, 0), Eff("DS", -1, -1, 0, 0) >>
    \o (IF nx # -1 THEN << Eff("OP", nx, -1, 0, 0) >>
        ELSE << Eff("CR", f + 1, -1, 0, 0), Eff("SL", f + 1, -1, FileSize, 0) >>)
RollTarget(f, tracked) == LET nx == NextTracked(tracked, f) IN IF nx # -1 THEN nx ELSE f + 1

(* Writes one entry of `rest` bytes starting at (f, off); returns the      *)
(* effects, the final cursor and the set of tracked files.                 *)
RECURSIVE SplitFrom(_, _, _, _, _, _)
SplitFrom(f, off, rest, first, tracked, acc) ==
  LET r == Rem(off)
      padn == IF r < HeaderLen THEN r ELSE 0
      acc1 == IF padn > 0 THEN Append(acc, Eff("W", f, off, padn, 0)) ELSE acc
      o1 == off + padn
      plen == FrMin(rest, MaxWritable(off))
      roll == o1 + HeaderLen + plen > FileSize
      f2 == IF roll THEN RollTarget(f, tracked) ELSE f
      o2 == IF roll THEN 0 ELSE o1
      acc2 == IF roll THEN acc1 \o RollEffs(f, tracked) ELSE acc1
      tracked2 == IF roll THEN tracked \cup {f2} ELSE tracked
      last == (rest = plen)
      acc3 == Append(acc2, Eff("W", f2, o2, HeaderLen + plen, FType(first, last)))
      o3 == o2 + HeaderLen + plen
  IN IF last THEN [effs |-> acc3, file |-> f2, off |-> o3, tracked |-> tracked2]
     ELSE SplitFrom(f2, o3, rest - plen, FALSE, tracked2, acc3)

SplitEntry(f, off, len, tracked) == SplitFrom(f, off, len, TRUE, tracked, <<>>)

EffBytes(effs) ==
  LET RECURSIVE S(_)
      S(n) == IF n = 0 THEN 0 ELSE S(n - 1) + (IF EKind(effs[n]) = "W" THEN ENum(effs[n]) ELSE 0)
  IN S(Len(effs))

(* C15 oracle: the bytes one entry of `len` bytes costs at cursor (f, off) *)
BytesWritten(f, off, len) == EffBytes(SplitEntry(f, off, len, {f}).effs)

-----------------------------------------------------------------------------
(* Stream view for the round-trip theorem (C07): files are contiguous, the *)
(* stream position of (f, off) is f * FileSize + off.                      *)

WritesOf(effs) == SelectSeq(effs, LAMBDA x : EKind(x) = "W")
SPos(x) == EFile(x) * FileSize + EOff(x)

RECURSIVE WriteAll(_, _, _, _, _)
WriteAll(f, off, lens, i, acc) ==
  IF i > Len(lens) THEN [effs |-> acc, file |-> f, off |-> off]
  ELSE LET s == SplitEntry(f, off, lens[i], {f}) IN
         WriteAll(s.file, s.off, lens, i + 1, acc \o WritesOf(s.effs))

(* The reader over an intact image: frames at their positions, zeros       *)
(* everywhere else (files are pre-sized).  Mirrors FrameReader::read_frame,*)
(* go_to_next_block_if_necessary and RecordReader::go_next.  Returns the   *)
(* delivered entry lengths and the final (block, cursor).                  *)
FrameAt(ws, pos) == {i \in 1..Len(ws) : EType(ws[i]) # 0 /\ SPos(ws[i]) = pos}

RECURSIVE ReadLoop(_, _, _, _, _, _, _)
ReadLoop(ws, nblocks, blk, cur, within, buf, out) ==
  LET need == (BlockSize - cur) < HeaderLen IN
    IF need /\ blk + 1 >= nblocks THEN [out |-> out, blk |-> blk, cur |-> cur]
    ELSE LET b == IF need THEN blk + 1 ELSE blk
             c == IF need THEN 0 ELSE cur
             fs == FrameAt(ws, b * BlockSize + c)
         IN IF fs = {} THEN [out |-> out, blk |-> b, cur |-> c]      \* zero header: not available
            ELSE LET x == ws[CHOOSE i \in fs : TRUE]
                     plen == ENum(x) - HeaderLen
                     isFirst == IsFirstType(EType(x))
                     isLast == IsLastType(EType(x))
                     w1 == IF isFirst THEN TRUE ELSE within
                     b1 == IF isFirst THEN plen ELSE IF within THEN buf + plen ELSE buf
                     c1 == c + ENum(x)
                 IN IF w1 /\ isLast THEN ReadLoop(ws, nblocks, b, c1, FALSE, 0, Append(out, b1))
                    ELSE ReadLoop(ws, nblocks, b, c1, w1, b1, out)

EndOfData(ws, startPos) ==
  IF Len(ws) = 0 THEN startPos + 1 ELSE LET x == ws[Len(ws)] IN SPos(x) + ENum(x)
NumBlocks(ws, startPos) ==
  LET e == IF EndOfData(ws, startPos) > startPos THEN EndOfData(ws, startPos) ELSE startPos + 1
  IN ((e - 1) \div FileSize + 1) * BlocksPerFile

ReadStream(ws, startPos) ==
  ReadLoop(ws, NumBlocks(ws, startPos), startPos \div BlockSize, startPos % BlockSize, FALSE, 0, <<>>)

(* The record layer alone (no files): writes of an entry on a flat stream, as *)
(* triples <<stream position, bytes, type>>.                                 *)
RECURSIVE FlatFrom(_, _, _, _)
FlatFrom(pos, rest, first, acc) ==
  LET r == Rem(pos)
      padn == IF r < HeaderLen THEN r ELSE 0
      acc1 == IF padn > 0 THEN Append(acc, <<pos, padn, 0>>) ELSE acc
      p1 == pos + padn
      plen == FrMin(rest, MaxWritable(pos))
      last == (rest = plen)
      acc2 == Append(acc1, <<p1, HeaderLen + plen, FType(first, last)>>)
      p2 == p1 + HeaderLen + plen
  IN IF last THEN [ws |-> acc2, pos |-> p2] ELSE FlatFrom(p2, rest - plen, FALSE, acc2)

RECURSIVE FlatAll(_, _, _, _, _)
FlatAll(pos, lens, i, acc, costs) ==
  IF i > Len(lens) THEN [ws |-> acc, pos |-> pos, costs |-> costs]
  ELSE LET s == FlatFrom(pos, lens[i], TRUE, <<>>) IN
         FlatAll(s.pos, lens, i + 1, acc \o s.ws, Append(costs, s.pos - pos))

(* Layout well-formedness of a sequence of writes (C07) *)
LayoutWellFormed(ws) ==
  \A i \in 1..Len(ws) :
    LET x == ws[i] IN
      IF EType(x) = 0
      THEN \* padding: fewer than HeaderLen bytes, reaching exactly the block end
           /\ ENum(x) < HeaderLen /\ ENum(x) > 0
           /\ (SPos(x) + ENum(x)) % BlockSize = 0
      ELSE \* frame: never crosses a block, starts with room for a header
           /\ ENum(x) >= HeaderLen
           /\ SPos(x) \div BlockSize = (SPos(x) + ENum(x) - 1) \div BlockSize
           /\ BlockSize - (SPos(x) % BlockSize) >= HeaderLen

(* Types form Full | First Middle* Last *)
TypesWellFormed(ws) ==
  LET fr == SelectSeq(ws, LAMBDA x : EType(x) # 0) IN
    /\ \A i \in 1..Len(fr) :
         LET t == EType(fr[i])
             prevOpen == i > 1 /\ ~IsLastType(EType(fr[i - 1]))
         IN IF prevOpen THEN t \in {TMiddle, TLast} ELSE t \in {TFull, TFirst}
    /\ (Len(fr) > 0 => IsLastType(EType(fr[Len(fr)])))
=============================================================================
