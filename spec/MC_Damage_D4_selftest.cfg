CONSTANTS
  BlockSize = 8
  HeaderLen = 2
  BlocksPerFile = 2
  RecHdr = 1
  BatchHdr = 1
  Queues = {0, 1}
  MaxOps = 4
  MaxPost = 1
  MaxCrashes = 0
  Policy = "always_flush"
  LossModels = {}
  GcAlwaysSyncs = TRUE
  OpenSizesLast = TRUE
  PayLens = {2, 9}
  BatchSizes = {1, 2}
  AllowExplicit = FALSE
  MaxDamage = 1
  DamageKinds = {"len_embeds"}
  CrcQuarantinesBlock = FALSE
  MinOpsBeforeCrash = 0
  WithPersistCalls = FALSE
  WithNoops = FALSE
INIT MCInit
NEXT MCNext
INVARIANTS VerdictOk BatchAtomic BufInv
CHECK_DEADLOCK FALSE
