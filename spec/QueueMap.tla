------------------------------ MODULE QueueMap ------------------------------
(***************************************************************************)
(* The sequential meaning of mrecordlog's API (property C05 IS this module).*)
(*                                                                         *)
(* Abstract state: a function from queue ids to either Absent or a record  *)
(* [a |-> TRUE, recs, next]; recs is the sequence of retained records,      *)
(* each a triple <<position, payload id, payload length>>; next is the     *)
(* next position.  start_position of the implementation is deliberately    *)
(* not part of the abstract state (it is not restart-stable).               *)
(*                                                                         *)
(* The operators (Result, Apply, RangeOf, ...) are pure, so that they can  *)
(* be used by the model-checking specs (Wal.tla), by the trace specs       *)
(* (WalTrace.tla) and by the small state machine at the end of this module *)
(* (MC_QueueMap).  -1 encodes "None" wherever the API has an Option.        *)
(***************************************************************************)
EXTENDS Integers, Sequences, FiniteSets

Absent == [a |-> FALSE]
Q(recs, next) == [a |-> TRUE, recs |-> recs, next |-> next]

QmMax(a, b) == IF a > b THEN a ELSE b
QmMin(a, b) == IF a < b THEN a ELSE b

RPos(r) == r[1]
RPid(r) == r[2]
RLen(r) == r[3]

RECURSIVE QmSumLen(_, _)
QmSumLen(recs, n) == IF n = 0 THEN 0 ELSE QmSumLen(recs, n - 1) + RLen(recs[n])

(* A call: [op, q, pos, batch, p].                                          *)
(*   op \in {"create","delete","append","truncate","persist","restart"}    *)
(*   pos: explicit position of an append or -1; batch: seq of <<pid,len>>  *)
(*   p: truncate position (truncate(..=p))                                 *)
NoCall == [op |-> "none", q |-> -1, pos |-> -1, batch |-> <<>>, p |-> -1]

ResOk(last, evicted) == [k |-> "ok", last |-> last, evicted |-> evicted]
ResErr(kind) == [k |-> kind, last |-> -1, evicted |-> 0]

AppendStart(qs, c) == IF c.pos = -1 THEN qs.next ELSE c.pos

(* The shape of an append, in the order the code decides it:               *)
(* missing queue, retry of the last position, past, empty batch, real.     *)
AppendShape(qs, c) ==
  IF ~qs.a THEN "missing"
  ELSE IF c.pos # -1 /\ c.pos + 1 = qs.next THEN "retry"
  ELSE IF c.pos # -1 /\ c.pos < qs.next THEN "past"
  ELSE IF Len(c.batch) = 0 THEN "empty"
  ELSE "real"

EvictedBy(qs, p) == Cardinality({i \in 1..Len(qs.recs) : RPos(qs.recs[i]) <= p})

Result(qm, c) ==
  CASE c.op = "create" -> IF qm[c.q].a THEN ResErr("exists") ELSE ResOk(-1, 0)
    [] c.op = "delete" -> IF qm[c.q].a THEN ResOk(-1, 0) ELSE ResErr("missing")
    [] c.op = "append" ->
         LET shape == AppendShape(qm[c.q], c) IN
           CASE shape = "missing" -> ResErr("missing")
             [] shape = "past" -> ResErr("past")
             [] shape \in {"retry", "empty"} -> ResOk(-1, 0)
             [] OTHER -> ResOk(AppendStart(qm[c.q], c) + Len(c.batch) - 1, 0)
    [] c.op = "truncate" -> IF qm[c.q].a THEN ResOk(-1, EvictedBy(qm[c.q], c.p)) ELSE ResErr("missing")
    [] OTHER -> ResOk(-1, 0)

(* TRUE iff the call changes nothing and must leave no trace (C13).        *)
(* A truncate of an existing queue that evicts nothing is NOT in this list.*)
IsRejectOrNoop(qm, c) ==
  \/ c.op = "create" /\ qm[c.q].a
  \/ c.op \in {"delete", "truncate"} /\ ~qm[c.q].a
  \/ c.op = "append" /\ AppendShape(qm[c.q], c) # "real"

TruncateQ(qs, p) ==
  LET keep == SelectSeq(qs.recs, LAMBDA r : RPos(r) > p) IN
    Q(keep, IF Len(keep) = 0 THEN QmMax(qs.next, p + 1) ELSE qs.next)

AppendQ(qs, c) ==
  LET start == AppendStart(qs, c)
      n == Len(c.batch)
  IN Q(qs.recs \o [i \in 1..n |-> <<start + i - 1, c.batch[i][1], c.batch[i][2]>>], start + n)

Apply(qm, c) ==
  IF IsRejectOrNoop(qm, c) THEN qm
  ELSE CASE c.op = "create" -> [qm EXCEPT ![c.q] = Q(<<>>, 0)]
         [] c.op = "delete" -> [qm EXCEPT ![c.q] = Absent]
         [] c.op = "append" -> [qm EXCEPT ![c.q] = AppendQ(qm[c.q], c)]
         [] c.op = "truncate" -> [qm EXCEPT ![c.q] = TruncateQ(qm[c.q], c.p)]
         [] OTHER -> qm

(* Observers *)
LastPosition(qs) == IF qs.next = 0 THEN -1 ELSE qs.next - 1
LastRecord(qs) == IF Len(qs.recs) = 0 THEN <<-1, -1, -1>> ELSE qs.recs[Len(qs.recs)]

(* A range bound is <<kind, position>>; kind 0 Unbounded, 1 Included, 2 Excluded *)
LoOk(b, x) == b[1] = 0 \/ (b[1] = 1 /\ x >= b[2]) \/ (b[1] = 2 /\ x > b[2])
HiOk(b, x) == b[1] = 0 \/ (b[1] = 1 /\ x <= b[2]) \/ (b[1] = 2 /\ x < b[2])
RangeOf(qs, lo, hi) == SelectSeq(qs.recs, LAMBDA r : LoOk(lo, RPos(r)) /\ HiOk(hi, RPos(r)))

(* Well-formedness of an abstract queue: positions strictly increase and   *)
(* stay below next.                                                        *)
WellFormedQ(qs) ==
  qs.a => /\ \A i \in 1..Len(qs.recs) : RPos(qs.recs[i]) < qs.next
          /\ \A i \in 1..Len(qs.recs) - 1 : RPos(qs.recs[i]) < RPos(qs.recs[i + 1])

(* Crash tolerance (C02): what an interrupted call may leave behind.       *)
(* An in-flight truncate / delete may be seen partially applied: some of   *)
(* the oldest records it targets already gone, nothing else.               *)
PartialApps(qm, c) ==
  IF c.op \in {"truncate", "delete"} /\ c.q >= 0 /\ qm[c.q].a THEN
     { [qm EXCEPT ![c.q].recs = SubSeq(qm[c.q].recs, j + 1, Len(qm[c.q].recs))] :
         j \in {j \in 0..Len(qm[c.q].recs) :
                  \A i \in 1..j : (c.op = "delete" \/ RPos(qm[c.q].recs[i]) <= c.p)} }
  ELSE {}

AllowedAfterCrash(qm, c) ==
  IF c.op = "none" THEN {qm} ELSE {qm, Apply(qm, c)} \cup PartialApps(qm, c)

(* C04 ghost: largest position ever returned / truncated-to in the current *)
(* incarnation of each queue, -1 if none.                                  *)
AssignedAfter(assigned, qm, c) ==
  IF IsRejectOrNoop(qm, c) THEN assigned
  ELSE CASE c.op \in {"create", "delete"} -> [assigned EXCEPT ![c.q] = -1]
         [] c.op = "append" -> [assigned EXCEPT ![c.q] = Result(qm, c).last]
         [] c.op = "truncate" ->
              IF Len(TruncateQ(qm[c.q], c.p).recs) = 0
              THEN [assigned EXCEPT ![c.q] = QmMax(@, c.p)] ELSE assigned
         [] OTHER -> assigned

(* C16: memory bound over the abstract state. K bytes of slack per record. *)
PayloadBytes(qm, qids) ==
  LET RECURSIVE Sum(_)
      Sum(S) == IF S = {} THEN 0 ELSE LET q == CHOOSE x \in S : TRUE IN
                  (IF qm[q].a THEN QmSumLen(qm[q].recs, Len(qm[q].recs)) ELSE 0) + Sum(S \ {q})
  IN Sum(qids)
NumRecords(qm, qids) ==
  LET RECURSIVE Sum(_)
      Sum(S) == IF S = {} THEN 0 ELSE LET q == CHOOSE x \in S : TRUE IN
                  (IF qm[q].a THEN Len(qm[q].recs) ELSE 0) + Sum(S \ {q})
  IN Sum(qids)

=============================================================================
